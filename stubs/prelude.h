/* Common declarations for wrapper translation units (CBMC only). */
#ifndef VERIF_PRELUDE_H
#define VERIF_PRELUDE_H
#include <stddef.h>
int nondet_int(void);
unsigned nondet_uint(void);
long nondet_long(void);
unsigned long nondet_ulong(void);
char nondet_char(void);
_Bool nondet_bool(void);
void *nondet_ptr(void);
#ifdef VERIF_NO_REACH
#define REACH() ((void)0)
#else
#define REACH() __CPROVER_assert(0, "REACH")
#endif
#define SAME(p, q) __CPROVER_same_object((p), (q))
#define OFF(p) ((long)__CPROVER_POINTER_OFFSET(p))
#endif
