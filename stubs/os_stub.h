/* nothing needed before the include: system headers declare the functions; models are in os_stub.c */
