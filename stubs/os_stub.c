/* Nondeterministic operating system (assumed model, listed in evidence): every call may fail independently, so one
 * symbolic run covers every single, paired and n-fold failure position.  Ghost counters track descriptors and maps. */
#include <sys/mman.h>
int g_open_fds;      /* descriptors opened by mkstemp and not yet closed */
int g_live_maps;     /* successful mmap minus munmap */
int g_mkstemp_calls, g_mmap_calls;
char g_env_val[8];   /* value returned by getenv when the variable is set (content nondeterministic, NUL-terminated) */

char *getenv (const char *name) {
  __CPROVER_assert(__CPROVER_r_ok(name, 1), "getenv name readable");
  if (nondet_bool()) return NULL;
  g_env_val[7] = 0;
  return g_env_val;
}
int mkstemp (char *templ) {
  __CPROVER_assert(__CPROVER_w_ok(templ, 1), "mkstemp template writable");
  g_mkstemp_calls++;
  if (nondet_bool()) return -1;
  g_open_fds++;
  int fd = nondet_int(); __CPROVER_assume(fd >= 3);
  return fd;
}
int close (int fd) { __CPROVER_assert(fd >= 3, "close of a descriptor returned by mkstemp"); g_open_fds--; return 0; }
int unlink (const char *path) { return nondet_int(); }
unsigned int umask (unsigned int m) { return nondet_uint(); }
int ftruncate (int fd, long length) { __CPROVER_assert(fd >= 3, "ftruncate on an open descriptor"); return nondet_bool() ? -1 : 0; }
void *mmap (void *addr, size_t length, int prot, int flags, int fd, long offset) {
  g_mmap_calls++;
  if (nondet_bool()) return MAP_FAILED;
  void *p = malloc(length); __CPROVER_assume(p != NULL);
  g_live_maps++;
  return p;
}
int munmap (void *addr, size_t length) {
  __CPROVER_assert(addr != MAP_FAILED && addr != NULL, "munmap of a live mapping");
  g_live_maps--; free(addr); return 0;
}
/* sprintf into the temp-file name buffer: writes strlen(dir)+16 bytes including the NUL (format "%s/orcexec.XXXXXX") */
size_t g_dirlen;
size_t strlen (const char *s) {
  __CPROVER_assert(__CPROVER_r_ok(s, 1), "strlen argument readable");
  /* environment value (8 bytes, NUL at [7] at the latest) or a string literal: position of the first NUL */
  size_t k = 0;
  while (s[k] != 0) k++;
  return k;
}
int verif_sprintf3 (char *buf, const char *fmt, const char *dir) {
  size_t n = strlen(dir) + 15;   /* "%s/orcexec.XXXXXX" */
  __CPROVER_assert(__CPROVER_w_ok(buf, n + 1), "sprintf result fits the buffer");
  buf[n] = 0;
  return (int)n;
}
