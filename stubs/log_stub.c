/* Logging has no effect on verified state: orc_debug_print is an empty stub (assumption, listed in evidence). */
void orc_debug_print (int level, const char *file, const char *func, int line, const char *format, ...) { (void)level; (void)file; (void)func; (void)line; (void)format; }
