#!/bin/bash
# Confirm a seeded change produced by a sub-agent: tests pass with it, demo fails with it and passes without it.
# usage: tools_seed_confirm.sh <tag> (worktree /tmp/wt_<tag>, files /tmp/seed_<tag>)
t=$1; wt=/tmp/wt_$t; sd=/tmp/seed_$t
cd $wt || exit 2
[ -d build ] || meson setup build >/dev/null 2>&1
ninja -C build >/dev/null 2>&1 || { echo "$t: BUILD FAILED with change"; exit 1; }
demo=demo.c
gcc $sd/$demo -o $sd/demo_bin -I$wt -I$wt/build -DORC_ENABLE_UNSTABLE_API -L$wt/build/orc -lorc-0.4 -lm -lpthread -Wl,-rpath,$wt/build/orc 2>/dev/null || { echo "$t: demo build failed"; exit 1; }
$sd/demo_bin >/dev/null 2>&1; with=$?
tests=$(meson test -C build 2>&1 | grep -E "^Ok:" | awk '{print $2}')
fails=$(meson test -C build --no-rebuild 2>&1 | grep -E "^Fail:" | awk '{print $2}')
git stash -q; ninja -C build >/dev/null 2>&1
$sd/demo_bin >/dev/null 2>&1; without=$?
git stash pop -q; ninja -C build >/dev/null 2>&1
echo "$t: demo_with_change_exit=$with demo_without_exit=$without tests_ok=$tests fail=$fails"
