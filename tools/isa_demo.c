/* C11 native demonstration / replay: compile a one-instruction program for <target> under <flags> with the real
 * library and print the assembly listing.  usage: isa_demo <target> <flags-hex> <opcode> */
#include <stdio.h>
#include <stdlib.h>
#include <string.h>
#include <orc/orc.h>

static void one (OrcTarget *t, const char *tname, unsigned flags, OrcStaticOpcode *op, int konst, unsigned long kval)
{
  OrcProgram *p = orc_program_new ();
  int args[4], n = 0;
  if (op->flags & ORC_STATIC_OPCODE_ACCUMULATOR)
    args[n++] = orc_program_add_accumulator (p, op->dest_size[0], "d1");
  else
    args[n++] = orc_program_add_destination (p, op->dest_size[0], "d1");
  if (op->dest_size[1]) args[n++] = orc_program_add_destination (p, op->dest_size[1], "d2");
  if (konst && !op->src_size[1]) {
    /* unary: feed it a constant through a temporary: copy t1 <- const is not needed; use the constant directly */
    args[n++] = (op->src_size[0] == 8) ? orc_program_add_constant_int64 (p, 8, (orc_int64) kval, "c0")
                                       : orc_program_add_constant (p, op->src_size[0], (int) kval, "c0");
  } else
    args[n++] = orc_program_add_source (p, op->src_size[0], "s1");
  if (op->src_size[1]) {
    if (konst || (op->flags & ORC_STATIC_OPCODE_SCALAR))
      args[n++] = (op->src_size[1] == 8) ? orc_program_add_constant_int64 (p, 8, (orc_int64) kval, "c1")
                                         : orc_program_add_constant (p, op->src_size[1], (int) kval, "c1");
    else args[n++] = orc_program_add_source (p, op->src_size[1], "s2");
  }
  if (op->src_size[2]) args[n++] = orc_program_add_constant (p, op->src_size[2], 1, "c2");
  while (n < 4) args[n++] = 0;
  orc_program_append_2 (p, op->name, 0, args[0], args[1], args[2], args[3]);
  OrcCompileResult r = orc_program_compile_full (p, t, flags);
  printf ("# target=%s flags=0x%x opcode=%s const=%d:0x%lx result=0x%x\n", tname, flags, op->name, konst, kval, (unsigned) r);
  const char *a = orc_program_get_asm_code (p);
  if (a && ORC_COMPILE_RESULT_IS_SUCCESSFUL (r)) fputs (a, stdout);
  orc_program_free (p);
}

/* isa_demo scan <target> <const-hex> [opcode ...]: every opcode (or the listed ones) x every subset of the target's
 * feature bits x {array operand, constant operand} */
static int scan (int argc, char **argv)
{
  OrcTarget *t = orc_target_get_by_name (argv[2]);
  unsigned long kval = strtoul (argv[3], NULL, 16);
  static const unsigned sse_bits[] = {1, 2, 4, 8, 16}, avx_bits[] = {1, 2, 4, 8, 16, 1024, 2048}, mmx_bits[] = {1, 2, 4, 8, 16, 32, 64};
  const unsigned *bits = sse_bits; int nb = 5;
  if (!t) return 2;
  if (!strcmp (argv[2], "avx")) { bits = avx_bits; nb = 7; }
  if (!strcmp (argv[2], "mmx")) { bits = mmx_bits; nb = 7; }
  OrcOpcodeSet *set = orc_opcode_set_get ("sys");
  for (int o = 0; o < set->n_opcodes; o++) {
    OrcStaticOpcode *op = set->opcodes + o;
    if (argc > 4) { int f = 0; for (int i = 4; i < argc; i++) if (!strcmp (argv[i], op->name)) f = 1; if (!f) continue; }
    if (!strncmp (op->name, "load", 4) || !strncmp (op->name, "store", 5) || !strncmp (op->name, "ldres", 5)) {
      if (strcmp (op->name, "loadpb") && strcmp (op->name, "loadpw") && strcmp (op->name, "loadpl") && strcmp (op->name, "loadpq")) continue;
    }
    for (unsigned m = 0; m < (1u << nb); m++) {
      unsigned flags = 512;
      for (int b = 0; b < nb; b++) if (m & (1u << b)) flags |= bits[b];
      one (t, argv[2], flags, op, 0, kval);
      one (t, argv[2], flags, op, 1, kval);
    }
  }
  return 0;
}

int main (int argc, char **argv)
{
  if (argc < 4) return 2;
  orc_init ();
  if (!strcmp (argv[1], "scan")) return scan (argc, argv);
  OrcTarget *t = orc_target_get_by_name (argv[1]);
  unsigned flags = strtoul (argv[2], NULL, 16);
  OrcStaticOpcode *op = orc_opcode_find_by_name (argv[3]);
  if (!t || !op) { fprintf (stderr, "no target/opcode\n"); return 2; }
  OrcProgram *p = orc_program_new ();
  int args[4], n = 0;
  if (op->flags & ORC_STATIC_OPCODE_ACCUMULATOR)
    args[n++] = orc_program_add_accumulator (p, op->dest_size[0], "d1");
  else
    args[n++] = orc_program_add_destination (p, op->dest_size[0], "d1");
  if (op->dest_size[1]) args[n++] = orc_program_add_destination (p, op->dest_size[1], "d2");
  args[n++] = orc_program_add_source (p, op->src_size[0], "s1");
  if (op->src_size[1]) {
    if (op->flags & ORC_STATIC_OPCODE_SCALAR) args[n++] = orc_program_add_constant (p, op->src_size[1], 1, "c1");
    else args[n++] = orc_program_add_source (p, op->src_size[1], "s2");
  }
  if (op->src_size[2]) args[n++] = orc_program_add_constant (p, op->src_size[2], 1, "c2");
  while (n < 4) args[n++] = 0;
  orc_program_append_2 (p, argv[3], 0, args[0], args[1], args[2], args[3]);
  OrcCompileResult r = orc_program_compile_full (p, t, flags);
  printf ("# target=%s flags=0x%x opcode=%s result=0x%x\n", argv[1], flags, argv[3], (unsigned) r);
  const char *a = orc_program_get_asm_code (p);
  if (a) fputs (a, stdout);
  return 0;
}
