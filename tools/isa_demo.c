/* C11 native demonstration / replay: compile a one-instruction program for <target> under <flags> with the real
 * library and print the assembly listing.  usage: isa_demo <target> <flags-hex> <opcode> */
#include <stdio.h>
#include <stdlib.h>
#include <string.h>
#include <orc/orc.h>

int main (int argc, char **argv)
{
  if (argc < 4) return 2;
  orc_init ();
  OrcTarget *t = orc_target_get_by_name (argv[1]);
  unsigned flags = strtoul (argv[2], NULL, 16);
  OrcStaticOpcode *op = orc_opcode_find_by_name (argv[3]);
  if (!t || !op) { fprintf (stderr, "no target/opcode\n"); return 2; }
  OrcProgram *p = orc_program_new ();
  int args[4], n = 0;
  if (op->flags & ORC_STATIC_OPCODE_ACCUMULATOR)
    args[n++] = orc_program_add_accumulator (p, op->dest_size[0], "d1");
  else
    args[n++] = orc_program_add_destination (p, op->dest_size[0], "d1");
  if (op->dest_size[1]) args[n++] = orc_program_add_destination (p, op->dest_size[1], "d2");
  args[n++] = orc_program_add_source (p, op->src_size[0], "s1");
  if (op->src_size[1]) {
    if (op->flags & ORC_STATIC_OPCODE_SCALAR) args[n++] = orc_program_add_constant (p, op->src_size[1], 1, "c1");
    else args[n++] = orc_program_add_source (p, op->src_size[1], "s2");
  }
  if (op->src_size[2]) args[n++] = orc_program_add_constant (p, op->src_size[2], 1, "c2");
  while (n < 4) args[n++] = 0;
  orc_program_append_2 (p, argv[3], 0, args[0], args[1], args[2], args[3]);
  OrcCompileResult r = orc_program_compile_full (p, t, flags);
  printf ("# target=%s flags=0x%x opcode=%s result=0x%x\n", argv[1], flags, argv[3], (unsigned) r);
  const char *a = orc_program_get_asm_code (p);
  if (a) fputs (a, stdout);
  return 0;
}
