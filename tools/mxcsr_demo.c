/* C10 demo: machine state after calling a compiled 2-D Orc function with m == 0.
 *
 * For each backend a 2-D program is compiled and run with m = 2 (control) and
 * m = 0.  Around orc_executor_run() we look at
 *   - MXCSR (float program on sse / avx),
 *   - the x87 tag word (integer program on mmx; 0xffff == all registers empty,
 *     which is what the ABI requires on return).
 * Exit status 1 if any state leaks out of the call, 0 otherwise.
 */
#include <stdio.h>
#include <string.h>
#include <stdint.h>
#include <xmmintrin.h>

#include <orc/orc.h>

#define N 16
#define ROWS 4

static unsigned
x87_tag_word (void)
{
  struct { uint16_t cw, r0, sw, r1, tw, r2; uint32_t rest[4]; } env;
  memset (&env, 0, sizeof (env));
  __asm__ __volatile__ ("fnstenv %0\n\tfldenv %0" : "+m" (env));
  return env.tw;
}

static OrcProgram *
build (const char *target, int is_float)
{
  OrcProgram *p = orc_program_new ();
  OrcCompileResult r;

  orc_program_set_name (p, is_float ? "demo2d_f" : "demo2d_w");
  orc_program_set_2d (p);
  if (is_float) {
    orc_program_add_destination (p, 4, "d1");
    orc_program_add_source (p, 4, "s1");
    orc_program_add_source (p, 4, "s2");
    orc_program_append_str (p, "addf", "d1", "s1", "s2");
  } else {
    orc_program_add_destination (p, 2, "d1");
    orc_program_add_source (p, 2, "s1");
    orc_program_add_constant (p, 2, 3, "c1");
    orc_program_append_str (p, "addw", "d1", "s1", "c1");
  }
  r = orc_program_compile_for_target (p, orc_target_get_by_name (target));
  if (!ORC_COMPILE_RESULT_IS_SUCCESSFUL (r)) {
    printf ("  [%s] not compiled on this host (result %d), skipped\n", target, r);
    orc_program_free (p);
    return NULL;
  }
  return p;
}

static int
run_case (const char *target, int is_float, int m)
{
  static float fd[ROWS][N], fs1[ROWS][N], fs2[ROWS][N];
  static int16_t wd[ROWS][N], ws1[ROWS][N];
  OrcProgram *p;
  OrcExecutor ex;
  unsigned csr0, csr1, tw0, tw1;
  int bad = 0;

  p = build (target, is_float);
  if (!p)
    return 0;

  memset (&ex, 0, sizeof (ex));
  orc_executor_set_program (&ex, p);
  orc_executor_set_n (&ex, N);
  orc_executor_set_m (&ex, m);
  if (is_float) {
    orc_executor_set_array_str (&ex, "d1", fd);
    orc_executor_set_array_str (&ex, "s1", fs1);
    orc_executor_set_array_str (&ex, "s2", fs2);
    orc_executor_set_stride (&ex, ORC_VAR_D1, sizeof (fd[0]));
    orc_executor_set_stride (&ex, ORC_VAR_S1, sizeof (fs1[0]));
    orc_executor_set_stride (&ex, ORC_VAR_S2, sizeof (fs2[0]));
  } else {
    orc_executor_set_array_str (&ex, "d1", wd);
    orc_executor_set_array_str (&ex, "s1", ws1);
    orc_executor_set_stride (&ex, ORC_VAR_D1, sizeof (wd[0]));
    orc_executor_set_stride (&ex, ORC_VAR_S1, sizeof (ws1[0]));
  }

  _mm_setcsr (0x1f80);
  csr0 = _mm_getcsr ();
  tw0 = x87_tag_word ();

  orc_executor_run (&ex);

  csr1 = _mm_getcsr ();
  tw1 = x87_tag_word ();

  /* put things back so that the rest of the demo runs in a sane state */
  _mm_setcsr (0x1f80);
  if (tw1 != 0xffff)
    __asm__ __volatile__ ("emms");

  printf ("  [%s %s m=%d] mxcsr 0x%04x -> 0x%04x   x87 tag word 0x%04x -> 0x%04x",
      target, is_float ? "addf" : "addw", m, csr0, csr1, tw0, tw1);
  if ((csr1 & 0xffc0) != (csr0 & 0xffc0)) {
    printf ("   MXCSR CONTROL BITS LEAKED");
    bad = 1;
  }
  if (tw1 != tw0) {
    printf ("   x87/MMX STATE NOT EMPTY ON RETURN");
    bad = 1;
  }
  printf ("\n");

  orc_program_free (p);
  return bad;
}

int
main (void)
{
  int bad = 0;

  orc_init ();

  printf ("control, m = 2:\n");
  bad |= run_case ("sse", 1, 2);
  bad |= run_case ("avx", 1, 2);
  bad |= run_case ("mmx", 0, 2);

  printf ("early exit, m = 0:\n");
  bad |= run_case ("sse", 1, 0);
  bad |= run_case ("avx", 1, 0);
  bad |= run_case ("mmx", 0, 0);

  if (bad) {
    printf ("VIOLATION: compiled 2-D function returned with modified "
        "MXCSR / non-empty MMX state\n");
    return 1;
  }
  printf ("OK: machine state preserved across all calls\n");
  return 0;
}
