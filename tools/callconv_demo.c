/* C10 demo: call compiled Orc code through an assembly trampoline that seeds
 * the SysV callee-saved general registers and checks them (plus rsp, MXCSR and
 * the direction flag) after the call.  Also cross-checks the assembly listing:
 * every callee-saved register the generated code mentions must be pushed and
 * popped. */
#include <stdio.h>
#include <stdlib.h>
#include <string.h>
#include <stdint.h>
#include <xmmintrin.h>
#include <orc/orc.h>

/* 1 destination + up to 7 sources + the loop counter = up to 9 general
 * registers: 7 caller-saved ones, then %rbx and %rbp. */
#define N_SRC_MAX 8

/* out[0..5] = rbx rbp r12 r13 r14 r15 after the call,
 * out[6] = rsp(before) - rsp(after), out[7] = rflags after */
void call_checked (void (*fn)(OrcExecutor *), OrcExecutor *ex, uint64_t *out);

__asm__ (
"    .text\n"
"    .globl call_checked\n"
"    .type call_checked,@function\n"
"call_checked:\n"
"    pushq %rbx\n"
"    pushq %rbp\n"
"    pushq %r12\n"
"    pushq %r13\n"
"    pushq %r14\n"
"    pushq %r15\n"
"    pushq %rdx\n"
"    movq %rdi, %rax\n"
"    movq %rsi, %rdi\n"
"    movabsq $0x1b1b1b1b1b1b1b1b, %rbx\n"
"    movabsq $0x2b2b2b2b2b2b2b2b, %rbp\n"
"    movabsq $0x1212121212121212, %r12\n"
"    movabsq $0x1313131313131313, %r13\n"
"    movabsq $0x1414141414141414, %r14\n"
"    movabsq $0x1515151515151515, %r15\n"
"    movq %rsp, c10_saved_rsp(%rip)\n"
"    cld\n"
"    call *%rax\n"
"    movq c10_saved_rsp(%rip), %rcx\n"
"    movq %rcx, %rax\n"
"    subq %rsp, %rax\n"
"    movq %rcx, %rsp\n"
"    popq %rdx\n"
"    movq %rbx, 0(%rdx)\n"
"    movq %rbp, 8(%rdx)\n"
"    movq %r12, 16(%rdx)\n"
"    movq %r13, 24(%rdx)\n"
"    movq %r14, 32(%rdx)\n"
"    movq %r15, 40(%rdx)\n"
"    movq %rax, 48(%rdx)\n"
"    pushfq\n"
"    popq %rax\n"
"    movq %rax, 56(%rdx)\n"
"    cld\n"
"    popq %r15\n"
"    popq %r14\n"
"    popq %r13\n"
"    popq %r12\n"
"    popq %rbp\n"
"    popq %rbx\n"
"    ret\n"
"    .size call_checked, .-call_checked\n"
"    .local c10_saved_rsp\n"
"    .comm c10_saved_rsp,8,8\n"
);

static const char *regname[6] = { "rbx", "rbp", "r12", "r13", "r14", "r15" };
static const uint64_t seed[6] = {
  0x1b1b1b1b1b1b1b1bULL, 0x2b2b2b2b2b2b2b2bULL, 0x1212121212121212ULL,
  0x1313131313131313ULL, 0x1414141414141414ULL, 0x1515151515151515ULL
};

/* d1[i] = s1[i] + s2[i] + ... + s<n_src>[i] (16-bit) */
static OrcProgram *
make_program (int n_src)
{
  OrcProgram *p = orc_program_new ();
  char name[8];
  int i;

  orc_program_set_name (p, "c10_sum");
  orc_program_add_destination (p, 2, "d1");
  for (i = 1; i <= n_src; i++) {
    sprintf (name, "s%d", i);
    orc_program_add_source (p, 2, name);
  }
  orc_program_add_temporary (p, 2, "t1");

  if (n_src == 1) {
    orc_program_append_str (p, "copyw", "t1", "s1", NULL);
  } else {
    orc_program_append_str (p, "addw", "t1", "s1", "s2");
  }
  for (i = 3; i <= n_src; i++) {
    sprintf (name, "s%d", i);
    orc_program_append_str (p, "addw", "t1", "t1", name);
  }
  orc_program_append_str (p, "copyw", "d1", "t1", NULL);
  return p;
}

/* Listing check: a callee-saved register that appears anywhere in the listing
 * must appear in a push and in a pop. */
static int
check_listing (const char *asm_code, const char *tname, int n_src)
{
  static const char *names[][4] = {
    { "rbx", "ebx", "%bx", "%bl" },
    { "r12", NULL, NULL, NULL }, { "r13", NULL, NULL, NULL },
    { "r14", NULL, NULL, NULL }, { "r15", NULL, NULL, NULL },
  };
  int bad = 0;
  size_t r;

  for (r = 0; r < sizeof (names) / sizeof (names[0]); r++) {
    int mentioned = 0, pushed = 0, popped = 0;
    const char *line = asm_code;

    while (line && *line) {
      const char *eol = strchr (line, '\n');
      size_t len = eol ? (size_t) (eol - line) : strlen (line);
      char buf[256];
      int k, hit = 0;

      if (len >= sizeof (buf)) len = sizeof (buf) - 1;
      memcpy (buf, line, len);
      buf[len] = 0;
      for (k = 0; k < 4 && names[r][k]; k++) {
        if (strstr (buf, names[r][k])) hit = 1;
      }
      if (hit) {
        mentioned = 1;
        if (strstr (buf, "push")) pushed = 1;
        if (strstr (buf, "pop")) popped = 1;
      }
      line = eol ? eol + 1 : NULL;
    }
    if (mentioned && !(pushed && popped)) {
      printf ("  VIOLATION [%s, %d sources] listing: %%%s is used but %s\n",
          tname, n_src, names[r][0],
          pushed ? "never popped" : (popped ? "never pushed" :
            "neither pushed nor popped"));
      bad++;
    }
  }
  return bad;
}

static int
run_one (const char *tname, int n_src, int n)
{
  OrcTarget *target = orc_target_get_by_name (tname);
  OrcProgram *p;
  OrcExecutor *ex;
  OrcCompileResult res;
  orc_int16 *src[N_SRC_MAX], *dst;
  uint64_t out[8];
  unsigned int csr_before, csr_after;
  int i, j, bad = 0;

  if (target == NULL) {
    printf ("  [%s] target not available, skipped\n", tname);
    return 0;
  }
  p = make_program (n_src);
  res = orc_program_compile_full (p, target,
      orc_target_get_default_flags (target));
  if (!ORC_COMPILE_RESULT_IS_SUCCESSFUL (res) || p->orccode == NULL) {
    printf ("  [%s, %d sources] did not compile (0x%x), skipped\n", tname,
        n_src, res);
    orc_program_free (p);
    return 0;
  }

  bad += check_listing (orc_program_get_asm_code (p), tname, n_src);

  dst = malloc (sizeof (orc_int16) * (n + 16));
  memset (dst, 0, sizeof (orc_int16) * (n + 16));
  ex = orc_executor_new (p);
  orc_executor_set_n (ex, n);
  orc_executor_set_array_str (ex, "d1", dst);
  for (i = 0; i < n_src; i++) {
    char name[8];
    src[i] = malloc (sizeof (orc_int16) * (n + 16));
    for (j = 0; j < n; j++) src[i][j] = (orc_int16) ((i + 1) * 3 + j);
    sprintf (name, "s%d", i + 1);
    orc_executor_set_array_str (ex, name, src[i]);
  }

  memset (out, 0, sizeof (out));
  csr_before = _mm_getcsr ();
  call_checked (p->orccode->exec, ex, out);
  csr_after = _mm_getcsr ();

  for (i = 0; i < 6; i++) {
    if (out[i] != seed[i]) {
      printf ("  VIOLATION [%s, %d sources, n=%d] callee-saved %%%s clobbered: "
          "0x%016llx -> 0x%016llx\n", tname, n_src, n, regname[i],
          (unsigned long long) seed[i], (unsigned long long) out[i]);
      bad++;
    }
  }
  if (out[6] != 0) {
    printf ("  VIOLATION [%s, %d sources] rsp moved by %lld\n", tname, n_src,
        (long long) out[6]);
    bad++;
  }
  if (out[7] & 0x400) {
    printf ("  VIOLATION [%s, %d sources] direction flag set on return\n",
        tname, n_src);
    bad++;
  }
  if (csr_before != csr_after) {
    printf ("  VIOLATION [%s, %d sources] MXCSR 0x%04x -> 0x%04x\n", tname,
        n_src, csr_before, csr_after);
    bad++;
  }
  /* the arithmetic itself is right either way */
  for (j = 0; j < n; j++) {
    orc_int16 want = 0;
    for (i = 0; i < n_src; i++) want = (orc_int16) (want + src[i][j]);
    if (dst[j] != want) {
      printf ("  [%s, %d sources] wrong result at %d\n", tname, n_src, j);
      bad++;
      break;
    }
  }
  if (!bad) {
    printf ("  ok [%s, %d sources, n=%d]\n", tname, n_src, n);
  }

  orc_executor_free (ex);
  for (i = 0; i < n_src; i++) free (src[i]);
  free (dst);
  orc_program_free (p);
  return bad;
}

int
main (void)
{
  static const char *targets[] = { "sse", "avx", "mmx" };
  int bad = 0;
  size_t t;
  int n_src;

  orc_init ();

  for (t = 0; t < sizeof (targets) / sizeof (targets[0]); t++) {
    for (n_src = 1; n_src <= N_SRC_MAX; n_src++) {
      bad += run_one (targets[t], n_src, 67);
    }
  }

  if (bad) {
    printf ("C10 VIOLATED: %d problem(s): compiled Orc code does not preserve "
        "callee-saved state\n", bad);
    return 1;
  }
  printf ("C10 holds for all programs tried\n");
  return 0;
}
