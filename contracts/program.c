/* Wrapper TU for orc/orcprogram.c (properties C05, C16): the construction API under the contracts of program_api.h */
#include "stubs/prelude.h"
/* sprintf into freshly allocated name buffers ("func_%p" into 40 bytes, "%s.dup%d" into strlen+10): redirected to a
 * fixed-arity model that NUL-terminates inside the buffer (dfcc cannot instrument variadic calls) */
int verif_sprintf_buf (char *buf);
#define sprintf(buf, ...) verif_sprintf_buf(buf)
#include "/repo/orc/orcutils.c"
#include "/repo/orc/orcprogram.c"
#undef sprintf
#include "contracts/program_api.h"
#include "stubs/log_stub.c"

int verif_sprintf_buf (char *buf) { __CPROVER_assert(__CPROVER_w_ok(buf, 1), "sprintf destination writable"); buf[0] = 0; return 0; }
void orc_init (void) { }
void orc_global_mutex_lock (void) { }
void orc_global_mutex_unlock (void) { }
/* strings: abstracted libc models (result nondeterministic, arguments must be readable) */
int strcmp (const char *a, const char *b) { __CPROVER_assert(__CPROVER_r_ok(a, 1) && __CPROVER_r_ok(b, 1), "strcmp arguments are readable strings"); return nondet_int(); }
size_t strlen (const char *s) { __CPROVER_assert(__CPROVER_r_ok(s, 1), "strlen argument readable"); size_t k = nondet_ulong(); __CPROVER_assume(k < 64); return k; }
char *strdup (const char *s) {
  __CPROVER_assert(__CPROVER_r_ok(s, 1), "strdup argument is a readable string");
  char *r = malloc(8); __CPROVER_assume(r != NULL); r[7] = 0; return r;
}
double nondet_double(void);
/* strtod model: end pointer anywhere plausible; the value is one of a few representative doubles -- no C05 obligation
 * depends on it (the constant-reuse comparison is against arbitrary stored values), and an arbitrary double makes the
 * double->float conversion in add_constant_str dominate the solver time (undecided at 800 s) */
double strtod (const char *s, char **end) { __CPROVER_assert(__CPROVER_r_ok(s, 1), "strtod argument"); if (end) *end = (char *)s + (nondet_bool() ? 0 : 1);
  switch (nondet_int() & 7) { case 0: return 0.0; case 1: return 1.0; case 2: return -3.25; case 3: return 0.1; case 4: return 1e30; case 5: return -1e-30; case 6: return 16777217.0; default: return 255.5; } }

/* number parsing: assumed contract (the real _strtoll is enforced in C15's unit): *endptr points into the string */
orc_int64 _strtoll (const char *nptr, char **endptr, int base)
__CPROVER_requires(__CPROVER_r_ok(nptr, 8) && nptr[7] == 0 && (endptr == NULL || __CPROVER_w_ok(endptr, sizeof(char *))))
__CPROVER_assigns(endptr != NULL: *endptr)
__CPROVER_ensures(endptr != NULL ==> __CPROVER_pointer_in_range_dfcc((char *)nptr, *endptr, (char *)nptr + 7));

/* variable lookup by name: -1 or an index (enforced with a loop contract in unit orc_program_find_var_by_name) */
int orc_program_find_var_by_name (OrcProgram *program, const char *name)
__CPROVER_requires(__CPROVER_r_ok(program, sizeof(OrcProgram)))
__CPROVER_assigns()
__CPROVER_ensures(__CPROVER_return_value >= -1 && __CPROVER_return_value < ORC_N_VARIABLES);
void h_orc_program_find_var_by_name(void);

/* the opcode registry as seen from here: NULL or an entry of a table whose sizes are small non-negative numbers */
OrcStaticOpcode g_optab[8];
OrcStaticOpcode * orc_opcode_find_by_name (const char *name) {
  __CPROVER_assert(__CPROVER_r_ok(name, 1), "opcode name readable");
  if (nondet_bool()) return NULL;
  int k = nondet_int(); __CPROVER_assume(k >= 0 && k < 8);
  return &g_optab[k];
}
int g_code_free_calls_;
void orc_code_free (OrcCode *code) { __CPROVER_assert(__CPROVER_rw_ok(code, sizeof(*code)), "orc_code_free of a live code object"); free(code); }
OrcCompileResult orc_compiler_compile_program (OrcCompiler *compiler, OrcProgram *program, OrcTarget *target, unsigned int flags) { free(compiler); return nondet_int(); }
OrcTarget * orc_target_get_default (void) { return NULL; }

char g_str[8];
static OrcProgram *mk_program(void) {
  OrcProgram *p = malloc(sizeof(*p)); __CPROVER_assume(p != NULL);
  __CPROVER_assume(PROGRAM_COUNTS_OK(p));
  g_str[7] = 0;
  return p;
}
#define H_ADD(fn) void h_##fn(void) { OrcProgram *p = mk_program(); fn(p, nondet_int(), g_str); REACH(); }
H_ADD(orc_program_add_temporary)
H_ADD(orc_program_add_source)
H_ADD(orc_program_add_destination)
H_ADD(orc_program_add_accumulator)
H_ADD(orc_program_add_parameter)
H_ADD(orc_program_add_parameter_float)
H_ADD(orc_program_add_parameter_double)
H_ADD(orc_program_add_parameter_int64)
void h_orc_program_add_constant_str(void) { OrcProgram *p = mk_program(); orc_program_add_constant_str(p, nondet_int(), g_str, g_str); REACH(); }

/* the remaining append entry points share the capacity obligation of append_str_n */
#define APPEND_CONTRACT_TAIL \
__CPROVER_assigns(__CPROVER_object_whole(program)) \
__CPROVER_ensures(PROGRAM_OK(program)) \
__CPROVER_ensures(program->n_insns >= __CPROVER_old(program->n_insns) && program->n_insns <= __CPROVER_old(program->n_insns) + 1);
void orc_program_append_2 (OrcProgram *program, const char *name, unsigned int flags, int arg0, int arg1, int arg2, int arg3)
__CPROVER_requires(PROGRAM_OK(program) && IS_STR(name))
APPEND_CONTRACT_TAIL
void orc_program_append (OrcProgram *program, const char *name, int arg0, int arg1, int arg2)
__CPROVER_requires(PROGRAM_OK(program) && IS_STR(name))
APPEND_CONTRACT_TAIL
void orc_program_append_ds (OrcProgram *program, const char *name, int arg0, int arg1)
__CPROVER_requires(PROGRAM_OK(program) && IS_STR(name))
APPEND_CONTRACT_TAIL
void orc_program_append_ds_str (OrcProgram *program, const char *name, const char *arg1, const char *arg2)
__CPROVER_requires(PROGRAM_OK(program) && IS_STR(name) && IS_STR(arg1) && IS_STR(arg2))
APPEND_CONTRACT_TAIL
void orc_program_append_dds_str (OrcProgram *program, const char *name, const char *arg1, const char *arg2, const char *arg3)
__CPROVER_requires(PROGRAM_OK(program) && IS_STR(name) && IS_STR(arg1) && IS_STR(arg2) && IS_STR(arg3))
APPEND_CONTRACT_TAIL

static void mk_names(OrcProgram *p) { for (int i = 0; i < ORC_N_VARIABLES; i++) p->vars[i].name = nondet_bool() ? NULL : g_str; }
void h_orc_program_append_str_n(void) {
  OrcProgram *p = mk_program();   /* variable names are not read here: the lookup is replaced by its contract */
  const char *argv[6] = { g_str, g_str, g_str, g_str, g_str, g_str };
  orc_program_append_str_n(p, g_str, nondet_uint(), nondet_int(), argv);
  REACH();
}
void h_orc_program_append_2(void) { OrcProgram *p = mk_program(); orc_program_append_2(p, g_str, nondet_uint(), nondet_int(), nondet_int(), nondet_int(), nondet_int()); REACH(); }
void h_orc_program_append(void) { OrcProgram *p = mk_program(); orc_program_append(p, g_str, nondet_int(), nondet_int(), nondet_int()); REACH(); }
void h_orc_program_append_ds(void) { OrcProgram *p = mk_program(); orc_program_append_ds(p, g_str, nondet_int(), nondet_int()); REACH(); }
void h_orc_program_append_ds_str(void) { OrcProgram *p = mk_program(); mk_names(p); orc_program_append_ds_str(p, g_str, g_str, g_str); REACH(); }
void h_orc_program_append_dds_str(void) { OrcProgram *p = mk_program(); mk_names(p); orc_program_append_dds_str(p, g_str, g_str, g_str, g_str); REACH(); }

void h_orc_program_find_var_by_name(void) { OrcProgram *p = mk_program(); mk_names(p); orc_program_find_var_by_name(p, nondet_bool() ? NULL : g_str); REACH(); }

/* ================================================================ C16: ownership of everything a program holds */
int g_vi;   /* ghost variable index */
/* every owned pointer field is NULL or a live heap block of its own (built by the harness, stated for replace mode) */
static char *own_str(void) { if (nondet_bool()) return NULL; char *s = malloc(8); __CPROVER_assume(s != NULL); s[7] = 0; return s; }
static OrcProgram *mk_owned_program(void) {
  OrcProgram *p = malloc(sizeof(*p)); __CPROVER_assume(p != NULL);
  __CPROVER_assume(PROGRAM_COUNTS_OK(p));
  for (int i = 0; i < ORC_N_VARIABLES; i++) { p->vars[i].name = own_str(); p->vars[i].type_name = own_str(); }
  p->asm_code = own_str(); p->init_function = own_str(); p->backup_name = own_str(); p->name = own_str(); p->error_msg = own_str();
  if (nondet_bool()) p->orccode = NULL; else { p->orccode = malloc(sizeof(OrcCode)); __CPROVER_assume(p->orccode != NULL); }
  g_vi = nondet_int(); __CPROVER_assume(g_vi >= 0 && g_vi < ORC_N_VARIABLES);
  g_str[7] = 0;
  return p;
}
#define FREED_IF_SET(expr) (__CPROVER_old(expr) == NULL || __CPROVER_was_freed(__CPROVER_old(expr)))

/* destructor: everything owned is released, the code object through orc_code_free (exactly once) */
void orc_program_free (OrcProgram *program)
__CPROVER_requires(__CPROVER_rw_ok(program, sizeof(OrcProgram)))
__CPROVER_assigns(__CPROVER_object_whole(program))
__CPROVER_frees(program, program->asm_code, program->init_function, program->backup_name, program->name, program->error_msg, program->orccode,
                program->vars[g_vi].name, program->vars[g_vi].type_name)
__CPROVER_ensures(__CPROVER_was_freed(__CPROVER_old(program)))
__CPROVER_ensures(FREED_IF_SET(program->asm_code) && FREED_IF_SET(program->init_function) && FREED_IF_SET(program->backup_name))
__CPROVER_ensures(FREED_IF_SET(program->name) && FREED_IF_SET(program->error_msg) && FREED_IF_SET(program->orccode))
__CPROVER_ensures(FREED_IF_SET(program->vars[g_vi].name) && FREED_IF_SET(program->vars[g_vi].type_name));
void h_orc_program_free(void) { OrcProgram *p = mk_owned_program(); orc_program_free(p); REACH(); }

/* setters that replace an owned string release the old one and install a fresh copy */
#define H_SETTER(fn, field) void h_##fn(void) { OrcProgram *p = mk_owned_program(); fn(p, g_str); \
   __CPROVER_assert(p->field != NULL, #fn " installs a copy"); orc_program_free(p); REACH(); }
H_SETTER(orc_program_set_name, name)
H_SETTER(orc_program_set_backup_name, backup_name)
void h_orc_program_set_type_name_own(void) {
  OrcProgram *p = mk_owned_program();
  orc_program_set_type_name(p, g_vi, g_str);
  orc_program_free(p);
  REACH();
}
void h_orc_program_reset(void) {
  OrcProgram *p = mk_owned_program();
  orc_program_reset(p);
  __CPROVER_assert(p->orccode == NULL && p->asm_code == NULL && p->error_msg == NULL, "reset clears what it released");
  orc_program_free(p);
  REACH();
}
void h_orc_program_take_code(void) {
  OrcProgram *p = mk_owned_program();
  OrcCode *had = p->orccode;
  OrcCode *c = orc_program_take_code(p);
  __CPROVER_assert(c == had && p->orccode == NULL, "take_code hands the code object over");
  orc_program_free(p);
  /* a taken code object stays valid after the program is freed; it is the caller's to release */
  __CPROVER_assert(c == NULL || __CPROVER_rw_ok(c, sizeof(OrcCode)), "taken code object still alive after orc_program_free");
  if (c) free(c);
  REACH();
}
/* every add_* stores an owned copy of the name that the destructor releases */
void h_add_then_free(void) {
  OrcProgram *p = mk_owned_program();
  /* the slot the new variable goes into is empty (that is what the counters mean) */
  int k = nondet_int();
  int idx;
  switch (k) {
    case 0: __CPROVER_assume(p->vars[ORC_VAR_T1 + (p->n_temp_vars < ORC_MAX_TEMP_VARS ? p->n_temp_vars : 0)].name == NULL); idx = orc_program_add_temporary(p, 2, g_str); break;
    case 1: __CPROVER_assume(p->vars[ORC_VAR_S1 + (p->n_src_vars < ORC_MAX_SRC_VARS ? p->n_src_vars : 0)].name == NULL && p->vars[ORC_VAR_S1 + (p->n_src_vars < ORC_MAX_SRC_VARS ? p->n_src_vars : 0)].type_name == NULL); idx = orc_program_add_source(p, 2, g_str); break;
    case 2: __CPROVER_assume(p->vars[ORC_VAR_D1 + (p->n_dest_vars < ORC_MAX_DEST_VARS ? p->n_dest_vars : 0)].name == NULL && p->vars[ORC_VAR_D1 + (p->n_dest_vars < ORC_MAX_DEST_VARS ? p->n_dest_vars : 0)].type_name == NULL); idx = orc_program_add_destination(p, 2, g_str); break;
    case 3: __CPROVER_assume(p->vars[ORC_VAR_P1 + (p->n_param_vars < ORC_MAX_PARAM_VARS ? p->n_param_vars : 0)].name == NULL); idx = orc_program_add_parameter(p, 2, g_str); break;
    default: __CPROVER_assume(p->vars[ORC_VAR_A1 + (p->n_accum_vars < ORC_MAX_ACCUM_VARS ? p->n_accum_vars : 0)].name == NULL); idx = orc_program_add_accumulator(p, 2, g_str); break;
  }
  orc_program_free(p);
  REACH();
}

/* orc_program_add_constant_str in assume(requires)/assert(ensures) form (the dfcc form of this one function stopped being
 * decided within 800 s; same pre/postconditions as the contract in program_api.h, the real _strtoll inlined, no frame
 * condition claimed) */
static void hp_acs_one(OrcProgram *p) {
  int n0 = p->n_insns;
  int r = orc_program_add_constant_str(p, nondet_int(), g_str, g_str);
  __CPROVER_assert(PROGRAM_COUNTS_OK(p), "postcondition: PROGRAM_OK");
  __CPROVER_assert(r == -1 || r == 0 || (r >= ORC_VAR_C1 && r < ORC_VAR_C1 + ORC_MAX_CONST_VARS), "postcondition: -1, 0 or a constant slot");
  __CPROVER_assert(p->n_insns == n0, "postcondition: instructions untouched");
  if (r >= ORC_VAR_C1) __CPROVER_assert(__CPROVER_r_ok(p->vars[r].name, 1), "postcondition: the constant has a name");
}
/* the constant count is fixed per call site (all values 0..ORC_MAX_CONST_VARS are covered): with a symbolic slot index the
 * union accesses vars[i].value.{i,f} become byte updates over the whole program object (30 GB formula) */
void hp_orc_program_add_constant_str(void) {
  OrcProgram *p = mk_program();
  int k = p->n_const_vars;
  switch (k) {
    case 0: p->n_const_vars = 0; hp_acs_one(p); break;
    case 1: p->n_const_vars = 1; hp_acs_one(p); break;
    case 2: p->n_const_vars = 2; hp_acs_one(p); break;
    case 3: p->n_const_vars = 3; hp_acs_one(p); break;
    case 4: p->n_const_vars = 4; hp_acs_one(p); break;
    case 5: p->n_const_vars = 5; hp_acs_one(p); break;
    case 6: p->n_const_vars = 6; hp_acs_one(p); break;
    case 7: p->n_const_vars = 7; hp_acs_one(p); break;
    case 8: p->n_const_vars = 8; hp_acs_one(p); break;
    default: __CPROVER_assert(0, "PROGRAM_COUNTS_OK bounds n_const_vars by ORC_MAX_CONST_VARS == 8"); break;
  }
  REACH();
}
