/* Wrapper TU for orc/orcprogram.c (properties C05, C16): the construction API under the contracts of program_api.h */
#include "stubs/prelude.h"
/* sprintf into freshly allocated name buffers ("func_%p" into 40 bytes, "%s.dup%d" into strlen+10): redirected to a
 * fixed-arity model that NUL-terminates inside the buffer (dfcc cannot instrument variadic calls) */
int verif_sprintf_buf (char *buf);
#define sprintf(buf, ...) verif_sprintf_buf(buf)
#include "/repo/orc/orcutils.c"
#include "/repo/orc/orcprogram.c"
#undef sprintf
#include "contracts/program_api.h"
#include "stubs/log_stub.c"

int verif_sprintf_buf (char *buf) { __CPROVER_assert(__CPROVER_w_ok(buf, 1), "sprintf destination writable"); buf[0] = 0; return 0; }
void orc_init (void) { }
void orc_global_mutex_lock (void) { }
void orc_global_mutex_unlock (void) { }
/* strings: abstracted libc models (result nondeterministic, arguments must be readable) */
int strcmp (const char *a, const char *b) { __CPROVER_assert(__CPROVER_r_ok(a, 1) && __CPROVER_r_ok(b, 1), "strcmp arguments are readable strings"); return nondet_int(); }
size_t strlen (const char *s) { __CPROVER_assert(__CPROVER_r_ok(s, 1), "strlen argument readable"); size_t k = nondet_ulong(); __CPROVER_assume(k < 64); return k; }
char *strdup (const char *s) {
  __CPROVER_assert(__CPROVER_r_ok(s, 1), "strdup argument is a readable string");
  char *r = malloc(8); __CPROVER_assume(r != NULL); r[7] = 0; return r;
}
double nondet_double(void);
double strtod (const char *s, char **end) { __CPROVER_assert(__CPROVER_r_ok(s, 1), "strtod argument"); if (end) *end = (char *)s + (nondet_bool() ? 0 : 1); return nondet_double(); }

/* number parsing: assumed contract (the real _strtoll is enforced in C15's unit): *endptr points into the string */
orc_int64 _strtoll (const char *nptr, char **endptr, int base)
__CPROVER_requires(__CPROVER_r_ok(nptr, 8) && nptr[7] == 0 && (endptr == NULL || __CPROVER_w_ok(endptr, sizeof(char *))))
__CPROVER_assigns(endptr != NULL: *endptr)
__CPROVER_ensures(endptr != NULL ==> __CPROVER_pointer_in_range_dfcc((char *)nptr, *endptr, (char *)nptr + 7));

/* variable lookup by name: -1 or an index (enforced with a loop contract in unit orc_program_find_var_by_name) */
int orc_program_find_var_by_name (OrcProgram *program, const char *name)
__CPROVER_requires(__CPROVER_r_ok(program, sizeof(OrcProgram)))
__CPROVER_assigns()
__CPROVER_ensures(__CPROVER_return_value >= -1 && __CPROVER_return_value < ORC_N_VARIABLES);
void h_orc_program_find_var_by_name(void);

/* the opcode registry as seen from here: NULL or an entry of a table whose sizes are small non-negative numbers */
OrcStaticOpcode g_optab[8];
OrcStaticOpcode * orc_opcode_find_by_name (const char *name) {
  __CPROVER_assert(__CPROVER_r_ok(name, 1), "opcode name readable");
  if (nondet_bool()) return NULL;
  int k = nondet_int(); __CPROVER_assume(k >= 0 && k < 8);
  return &g_optab[k];
}
void orc_code_free (OrcCode *code) { __CPROVER_assert(__CPROVER_rw_ok(code, sizeof(*code)), "orc_code_free of a live code object"); free(code); }
OrcCompileResult orc_compiler_compile_program (OrcCompiler *compiler, OrcProgram *program, OrcTarget *target, unsigned int flags) { free(compiler); return nondet_int(); }
OrcTarget * orc_target_get_default (void) { return NULL; }

char g_str[8];
static OrcProgram *mk_program(void) {
  OrcProgram *p = malloc(sizeof(*p)); __CPROVER_assume(p != NULL);
  __CPROVER_assume(PROGRAM_COUNTS_OK(p));
  g_str[7] = 0;
  return p;
}
#define H_ADD(fn) void h_##fn(void) { OrcProgram *p = mk_program(); fn(p, nondet_int(), g_str); REACH(); }
H_ADD(orc_program_add_temporary)
H_ADD(orc_program_add_source)
H_ADD(orc_program_add_destination)
H_ADD(orc_program_add_accumulator)
H_ADD(orc_program_add_parameter)
H_ADD(orc_program_add_parameter_float)
H_ADD(orc_program_add_parameter_double)
H_ADD(orc_program_add_parameter_int64)
void h_orc_program_add_constant_str(void) { OrcProgram *p = mk_program(); orc_program_add_constant_str(p, nondet_int(), g_str, g_str); REACH(); }

/* the remaining append entry points share the capacity obligation of append_str_n */
#define APPEND_CONTRACT_TAIL \
__CPROVER_assigns(__CPROVER_object_whole(program)) \
__CPROVER_ensures(PROGRAM_OK(program)) \
__CPROVER_ensures(program->n_insns >= __CPROVER_old(program->n_insns) && program->n_insns <= __CPROVER_old(program->n_insns) + 1);
void orc_program_append_2 (OrcProgram *program, const char *name, unsigned int flags, int arg0, int arg1, int arg2, int arg3)
__CPROVER_requires(PROGRAM_OK(program) && IS_STR(name))
APPEND_CONTRACT_TAIL
void orc_program_append (OrcProgram *program, const char *name, int arg0, int arg1, int arg2)
__CPROVER_requires(PROGRAM_OK(program) && IS_STR(name))
APPEND_CONTRACT_TAIL
void orc_program_append_ds (OrcProgram *program, const char *name, int arg0, int arg1)
__CPROVER_requires(PROGRAM_OK(program) && IS_STR(name))
APPEND_CONTRACT_TAIL
void orc_program_append_ds_str (OrcProgram *program, const char *name, const char *arg1, const char *arg2)
__CPROVER_requires(PROGRAM_OK(program) && IS_STR(name) && IS_STR(arg1) && IS_STR(arg2))
APPEND_CONTRACT_TAIL
void orc_program_append_dds_str (OrcProgram *program, const char *name, const char *arg1, const char *arg2, const char *arg3)
__CPROVER_requires(PROGRAM_OK(program) && IS_STR(name) && IS_STR(arg1) && IS_STR(arg2) && IS_STR(arg3))
APPEND_CONTRACT_TAIL

static void mk_names(OrcProgram *p) { for (int i = 0; i < ORC_N_VARIABLES; i++) p->vars[i].name = nondet_bool() ? NULL : g_str; }
void h_orc_program_append_str_n(void) {
  OrcProgram *p = mk_program();   /* variable names are not read here: the lookup is replaced by its contract */
  const char *argv[6] = { g_str, g_str, g_str, g_str, g_str, g_str };
  orc_program_append_str_n(p, g_str, nondet_uint(), nondet_int(), argv);
  REACH();
}
void h_orc_program_append_2(void) { OrcProgram *p = mk_program(); orc_program_append_2(p, g_str, nondet_uint(), nondet_int(), nondet_int(), nondet_int(), nondet_int()); REACH(); }
void h_orc_program_append(void) { OrcProgram *p = mk_program(); orc_program_append(p, g_str, nondet_int(), nondet_int(), nondet_int()); REACH(); }
void h_orc_program_append_ds(void) { OrcProgram *p = mk_program(); orc_program_append_ds(p, g_str, nondet_int(), nondet_int()); REACH(); }
void h_orc_program_append_ds_str(void) { OrcProgram *p = mk_program(); mk_names(p); orc_program_append_ds_str(p, g_str, g_str, g_str); REACH(); }
void h_orc_program_append_dds_str(void) { OrcProgram *p = mk_program(); mk_names(p); orc_program_append_dds_str(p, g_str, g_str, g_str, g_str); REACH(); }

void h_orc_program_find_var_by_name(void) { OrcProgram *p = mk_program(); mk_names(p); orc_program_find_var_by_name(p, nondet_bool() ? NULL : g_str); REACH(); }
