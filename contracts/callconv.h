/* C10 ghost vocabulary shared by contracts/isa_emit_model.c (interpreter) and contracts/callconv.c (contracts). */
#ifndef VERIF_CALLCONV_H
#define VERIF_CALLCONV_H
#define CC_STACK 24
#define CC_SLOTS 4
#define CC_UNKNOWN 0
#define CC_ORIG 1      /* the MXCSR value the caller had on entry */
#define CC_MOD 2       /* caller's value | 0x8040 (flush-to-zero, denormals-are-zero) */
#define CC_BAD_CAPACITY 1
#define CC_BAD_UNDERFLOW 2
#define CC_BAD_MISMATCH 4
extern int g_sp, g_cc_bad, g_stack[CC_STACK], g_szstack[CC_STACK];
extern int g_mx, g_nslot, g_slot_off[CC_SLOTS], g_slot_val[CC_SLOTS], g_reg, g_reg_val;
#endif
