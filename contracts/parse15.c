/* Wrapper TU for property C15 (text denotes the API-built program): operand-slot helpers of the parser and number parsing. */
#include "stubs/prelude.h"
#include "/verif/out/gen/orcparse_nv.c"
#include "/repo/orc/orcutils.c"
#include "stubs/log_stub.c"

/* spec: operands are numbered destinations first, then sources, skipping empty slots */
static int spec_n_args (const OrcStaticOpcode *o) {
  int n = 0;
  for (int i = 0; i < ORC_STATIC_OPCODE_N_DEST; i++) if (o->dest_size[i] != 0) n++;
  for (int i = 0; i < ORC_STATIC_OPCODE_N_SRC; i++) if (o->src_size[i] != 0) n++;
  return n;
}
static int spec_arg_size (const OrcStaticOpcode *o, int arg) {
  int k = 0;
  for (int i = 0; i < ORC_STATIC_OPCODE_N_DEST; i++) if (o->dest_size[i] != 0) { if (k == arg) return o->dest_size[i]; k++; }
  for (int i = 0; i < ORC_STATIC_OPCODE_N_SRC; i++) if (o->src_size[i] != 0) { if (k == arg) return o->src_size[i]; k++; }
  return 0;
}
int g_exp;
static int opcode_n_args (OrcStaticOpcode *opcode)
__CPROVER_requires(__CPROVER_r_ok(opcode, sizeof(*opcode)) && g_exp == spec_n_args(opcode))
__CPROVER_assigns()
__CPROVER_ensures(__CPROVER_return_value == g_exp);
/* the size an inline numeric literal gets = the size of the operand slot it stands in (two-destination opcodes included) */
static int opcode_arg_size (OrcStaticOpcode *opcode, int arg)
__CPROVER_requires(__CPROVER_r_ok(opcode, sizeof(*opcode)) && arg >= 0 && arg < 6 && g_exp == spec_arg_size(opcode, arg))
__CPROVER_assigns()
__CPROVER_ensures(__CPROVER_return_value == g_exp);
void h_n_args(void) { OrcStaticOpcode *o = malloc(sizeof(*o)); __CPROVER_assume(o != NULL); g_exp = spec_n_args(o); opcode_n_args(o); REACH(); }
void h_arg_size(void) { OrcStaticOpcode *o = malloc(sizeof(*o)); __CPROVER_assume(o != NULL); int a = nondet_int(); __CPROVER_assume(a >= 0 && a < 6); g_exp = spec_arg_size(o, a); opcode_arg_size(o, a); REACH(); }

/* number literals: decimal, 0x hex, leading-0 octal, optional sign; value = positional value of the digits consumed;
 * *endptr at the first character not consumed (strings of at most STRMAX characters: bounded) */
#ifndef STRMAX
#define STRMAX 6
#endif
static int digit_val (char c) { if (c >= '0' && c <= '9') return c - '0'; if (c >= 'a' && c <= 'z') return 10 + c - 'a'; if (c >= 'A' && c <= 'Z') return 10 + c - 'A'; return 99; }
static int is_space (char c) { return c == ' ' || c == '\t' || c == '\n' || c == '\v' || c == '\f' || c == '\r'; }
long g_val; long g_end;
static void spec_strtoll (const char *s) {   /* base 0 */
  int p = 0; int neg = 0; unsigned long v = 0; int base = 10;
  while (p < STRMAX && is_space(s[p])) p++;
  if (s[p] == 0) { g_val = 0; g_end = p; return; }
  if (s[p] == '-') { neg = 1; p++; } else if (s[p] == '+') p++;
  if (s[p] == 0) { g_val = 0; g_end = p; return; }
  if (s[p] == '0' && (s[p + 1] == 'x' || s[p + 1] == 'X')) { base = 16; p += 2; }
  else if (s[p] == '0') { base = 8; p++; }
  while (p <= STRMAX && s[p] != 0 && digit_val(s[p]) < base) { v = v * base + digit_val(s[p]); p++; }
  g_val = neg ? -(long)v : (long)v; g_end = p;
}
orc_int64 _strtoll (const char *nptr, char **endptr, int base)
__CPROVER_requires(base == 0 && __CPROVER_r_ok(nptr, STRMAX + 2) && nptr[STRMAX] == 0 && __CPROVER_w_ok(endptr, sizeof(char *)))
__CPROVER_assigns(*endptr)
__CPROVER_ensures(__CPROVER_return_value == g_val && *endptr == nptr + g_end);
/* glibc's isspace() reads a locale table through __ctype_b_loc(): assumed model = the C locale */
/* (built on the heap at each call: file-scope tables would be made nondeterministic by the contract instrumentation) */
const unsigned short **__ctype_b_loc (void) {
  unsigned short *t = calloc(384, sizeof(unsigned short)); const unsigned short **pp = malloc(sizeof(*pp));
  __CPROVER_assume(t != NULL && pp != NULL);
  t[128 + ' '] = _ISspace; t[128 + '\t'] = _ISspace; t[128 + '\n'] = _ISspace; t[128 + '\v'] = _ISspace; t[128 + '\f'] = _ISspace; t[128 + '\r'] = _ISspace;
  *pp = t + 128; return pp;
}
void h_strtoll(void) {
  char *s = malloc(STRMAX + 2); __CPROVER_assume(s != NULL); s[STRMAX] = 0; s[STRMAX + 1] = 0;
  char *end; spec_strtoll(s);
  _strtoll(s, &end, 0);
  REACH();
}
