/* Wrapper TU for orc/orcprogram-x86.c (property C05): x86 compiler initialisation. */
#include "stubs/prelude.h"
#include "/repo/orc/orcprogram-x86.c"
#include "stubs/log_stub.c"

/* terminates for every register size and variable size, without overflow; the result is the log2 of the number of
 * elements per register (0 when a variable fills the register) */
static void orc_x86_compiler_max_loop_shift (OrcX86Target *t, OrcCompiler *c)
__CPROVER_requires(__CPROVER_r_ok(t, sizeof(*t)) && __CPROVER_rw_ok(c, sizeof(*c)))
__CPROVER_requires(t->register_size >= 1 && t->register_size <= 64 && c->max_var_size >= 1 && c->max_var_size <= 64)
__CPROVER_assigns(c->loop_shift)
__CPROVER_ensures(c->loop_shift >= 0 && c->loop_shift <= 6)
__CPROVER_ensures((t->register_size / c->max_var_size) >= 1 ==> ((1 << c->loop_shift) <= t->register_size / c->max_var_size && t->register_size / c->max_var_size < (2 << c->loop_shift)))
__CPROVER_ensures((t->register_size / c->max_var_size) == 0 ==> c->loop_shift == 0);
void h_max_loop_shift(void) {
  OrcX86Target *t = malloc(sizeof(*t)); OrcCompiler *c = malloc(sizeof(*c)); __CPROVER_assume(t != NULL && c != NULL);
  orc_x86_compiler_max_loop_shift(t, c);
  REACH();
}

/* ---- C10: the registers the ABI makes the callee preserve are in save_regs, the stack pointer is never handed out --- */
static int st_is64 (int flags) { return nondet_int (); }
static int st_fp (int flags) { return nondet_int (); }
static int st_lj (int flags) { return nondet_int (); }
static void st_regs (int *regs, int is_64bit) { }   /* the backends' validate/saveable callbacks only touch vector registers */

/* The contract of orc_x86_compiler_init, written as assume(requires) / assert(ensures) around the real function:
 * dfcc's write-set instrumentation of the ~300 register-table writes runs out of memory (DESIGN.md 7.8), the plain
 * form is decided in seconds.  No frame condition is claimed. */
#define INIT_REQUIRES(c, t) \
  ((c)->n_insns == 0 && (c)->max_var_size >= 1 && (c)->max_var_size <= 64 && (t)->register_size >= 1 && (t)->register_size <= 64)
void h_compiler_init(void) {
  OrcCompiler *c = malloc(sizeof(*c)); OrcTarget *tg = malloc(sizeof(*tg)); OrcX86Target *t = malloc(sizeof(*t));
  __CPROVER_assume(c != NULL && tg != NULL && t != NULL);
  t->is_64bit = st_is64; t->use_frame_pointer = st_fp; t->use_long_jumps = st_lj; t->validate_registers = st_regs; t->saveable_registers = st_regs;
  tg->target_data = t; c->target = tg;
  __CPROVER_assume(INIT_REQUIRES(c, t));
  orc_x86_compiler_init(c);
  /* System V AMD64: rbx, rbp, r12-r15 */
  __CPROVER_assert(!c->is_64bit || (c->save_regs[X86_EBX] == 1 && c->save_regs[X86_EBP] == 1 && c->save_regs[X86_R12] == 1 && c->save_regs[X86_R13] == 1 && c->save_regs[X86_R14] == 1 && c->save_regs[X86_R15] == 1), "postcondition: SysV callee-saved registers are in save_regs");
  /* i386: ebx, edi, ebp (esi is pushed by the prologue whenever it is used) */
  __CPROVER_assert(c->is_64bit || (c->save_regs[X86_EBX] == 1 && c->save_regs[X86_EDI] == 1 && c->save_regs[X86_EBP] == 1), "postcondition: i386 callee-saved registers are in save_regs");
  __CPROVER_assert(c->valid_regs[X86_ESP] == 0, "postcondition: the stack pointer is never allocatable");
  __CPROVER_assert(c->valid_regs[c->exec_reg] == 0 && c->valid_regs[c->gp_tmpreg] == 0, "postcondition: executor and scratch registers are never allocatable");
  __CPROVER_assert(!c->use_frame_pointer || c->valid_regs[X86_EBP] == 0, "postcondition: the frame pointer is never allocatable");
  __CPROVER_assert(c->gp_tmpreg == X86_ECX, "postcondition: the scratch register is rcx/ecx (caller-saved)");
  __CPROVER_assert(c->used_regs[X86_EBX] == 0 && c->used_regs[X86_R12] == 0 && c->used_regs[X86_R15] == 0, "postcondition: no register is marked used before allocation");
  REACH();
}
