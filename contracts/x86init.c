/* Wrapper TU for orc/orcprogram-x86.c (property C05): x86 compiler initialisation. */
#include "stubs/prelude.h"
#include "/repo/orc/orcprogram-x86.c"
#include "stubs/log_stub.c"

/* terminates for every register size and variable size, without overflow; the result is the log2 of the number of
 * elements per register (0 when a variable fills the register) */
static void orc_x86_compiler_max_loop_shift (OrcX86Target *t, OrcCompiler *c)
__CPROVER_requires(__CPROVER_r_ok(t, sizeof(*t)) && __CPROVER_rw_ok(c, sizeof(*c)))
__CPROVER_requires(t->register_size >= 1 && t->register_size <= 64 && c->max_var_size >= 1 && c->max_var_size <= 64)
__CPROVER_assigns(c->loop_shift)
__CPROVER_ensures(c->loop_shift >= 0 && c->loop_shift <= 6)
__CPROVER_ensures((t->register_size / c->max_var_size) >= 1 ==> ((1 << c->loop_shift) <= t->register_size / c->max_var_size && t->register_size / c->max_var_size < (2 << c->loop_shift)))
__CPROVER_ensures((t->register_size / c->max_var_size) == 0 ==> c->loop_shift == 0);
void h_max_loop_shift(void) {
  OrcX86Target *t = malloc(sizeof(*t)); OrcCompiler *c = malloc(sizeof(*c)); __CPROVER_assume(t != NULL && c != NULL);
  orc_x86_compiler_max_loop_shift(t, c);
  REACH();
}
