/* C10 (structural part): what the generated function does to the machine state that the C calling convention makes
 * the callee responsible for, as far as it is decided by the emitters themselves:
 *   - prologue / epilogue: every push is popped, in reverse order, with the same register and size; every
 *     callee-saved general register the compiler marked as used is on the stack in between; rbp/ebp always;
 *   - MXCSR: after orc_{sse,avx}_set_mxcsr + orc_{sse,avx}_restore_mxcsr the register holds the caller's value again,
 *     and between them the flush bits are set;
 *   - orc_x86_compiler_init: the ABI's callee-saved registers are in save_regs, the stack pointer is never allocatable.
 * The emitters run unmodified on the emit-layer abstraction of contracts/isa_emit_model.c (compiled with CC_GHOST),
 * which interprets push/pop and the MXCSR dataflow; that abstraction is tied to the real emit functions by the
 * emit:* units of C11 (operand fields included). */
#include "contracts/isa_common.h"
#include "contracts/callconv.h"
#include <orc/orcx86-private.h>

int g_mid_ok;
extern unsigned g_need;

static int on_stack (int reg)
{
  for (int i = 0; i < CC_STACK; i++)
    if (i < g_sp && g_stack[i] == reg) return 1;
  return 0;
}

#define CC_CLEAN (g_sp == 0 && g_cc_bad == 0 && g_nslot == 0 && g_mx == CC_ORIG && g_reg == -1 && g_reg_val == CC_UNKNOWN)

#if defined(CC_FRAME)
#include "/repo/orc/orcx86.c"
#include "stubs/log_stub.c"

/* System V AMD64: rbx, rbp, r12-r15 belong to the caller; i386: ebx, esi, edi, ebp */
static int frame_mid_ok (OrcCompiler *c)
{
  if (!on_stack (X86_EBP)) return 0;
  if (c->is_64bit) {
    if (c->used_regs[X86_EBX] && !on_stack (X86_EBX)) return 0;
    if (c->used_regs[X86_R12] && !on_stack (X86_R12)) return 0;
    if (c->used_regs[X86_R13] && !on_stack (X86_R13)) return 0;
    if (c->used_regs[X86_R14] && !on_stack (X86_R14)) return 0;
    if (c->used_regs[X86_R15] && !on_stack (X86_R15)) return 0;
  } else {
    if (c->used_regs[X86_EBX] && !on_stack (X86_EBX)) return 0;
    if (c->used_regs[X86_ESI] && !on_stack (X86_ESI)) return 0;
    if (c->used_regs[X86_EDI] && !on_stack (X86_EDI)) return 0;
  }
  return 1;
}

/* lemma over the two real emitters */
void cc_frame (OrcCompiler *c)
__CPROVER_requires(__CPROVER_rw_ok(c, sizeof(OrcCompiler)))
__CPROVER_requires(__CPROVER_r_ok(c->target, sizeof(OrcTarget)) && __CPROVER_r_ok(c->target->name, 8))
__CPROVER_requires(__CPROVER_r_ok(c->program, sizeof(OrcProgram)))
__CPROVER_requires(CC_CLEAN)
/* what orc_x86_compiler_init establishes (its own contract below) */
__CPROVER_requires(c->is_64bit ==> (c->save_regs[X86_EBX] && c->save_regs[X86_EBP] && c->save_regs[X86_R12] && c->save_regs[X86_R13] && c->save_regs[X86_R14] && c->save_regs[X86_R15]))
__CPROVER_assigns(__CPROVER_object_whole(c), g_need, g_sp, g_cc_bad, __CPROVER_object_whole(g_stack), __CPROVER_object_whole(g_szstack), g_mid_ok, g_reg_val, g_nslot, __CPROVER_object_whole(g_slot_off), __CPROVER_object_whole(g_slot_val), g_mx, g_reg)
__CPROVER_ensures(g_mid_ok == 1)
__CPROVER_ensures(g_sp == 0)
__CPROVER_ensures(g_cc_bad == 0)
{
  orc_x86_emit_prologue (c);
  g_mid_ok = frame_mid_ok (c);
  orc_x86_emit_epilogue (c);
}

void h_cc_frame (void)
{
  OrcCompiler *c = malloc (sizeof (OrcCompiler)); OrcTarget *tg = malloc (sizeof (OrcTarget)); char *nm = malloc (8);
  OrcProgram *pr = malloc (sizeof (OrcProgram));
  __CPROVER_assume (c != NULL && tg != NULL && nm != NULL && pr != NULL);
  nm[7] = 0; tg->name = nm; c->target = tg; c->program = pr;
  g_sp = 0; g_cc_bad = 0; g_nslot = 0; g_mx = CC_ORIG; g_reg = -1; g_reg_val = CC_UNKNOWN;
  cc_frame (c);
  REACH ();
}
#endif

#if defined(CC_MXCSR_SSE) || defined(CC_MXCSR_AVX)
#if defined(CC_MXCSR_SSE)
#include "/repo/orc/orcsse.c"
#define SET_MXCSR orc_sse_set_mxcsr
#define RESTORE_MXCSR orc_sse_restore_mxcsr
#else
#include "/repo/orc/orcavx.c"
#define SET_MXCSR orc_avx_set_mxcsr
#define RESTORE_MXCSR orc_avx_restore_mxcsr
#endif
#include "stubs/log_stub.c"

void cc_mxcsr (OrcCompiler *c)
__CPROVER_requires(__CPROVER_rw_ok(c, sizeof(OrcCompiler)))
__CPROVER_requires(CC_CLEAN)
__CPROVER_requires(c->gp_tmpreg != c->exec_reg)
__CPROVER_assigns(__CPROVER_object_whole(c), g_need, g_sp, g_cc_bad, __CPROVER_object_whole(g_stack), __CPROVER_object_whole(g_szstack), g_mid_ok, g_reg_val, g_nslot, __CPROVER_object_whole(g_slot_off), __CPROVER_object_whole(g_slot_val), g_mx, g_reg)
__CPROVER_ensures(g_mid_ok == 1)         /* inside the function: flush-to-zero / denormals-are-zero on top of the caller's value */
__CPROVER_ensures(g_mx == CC_ORIG)       /* on return: the caller's MXCSR */
__CPROVER_ensures(g_cc_bad == 0 && g_sp == 0)
{
  SET_MXCSR (c);
  g_mid_ok = (g_mx == CC_MOD);
  RESTORE_MXCSR (c);
}

void h_cc_mxcsr (void)
{
  OrcCompiler *c = malloc (sizeof (OrcCompiler));
  __CPROVER_assume (c != NULL);
  g_sp = 0; g_cc_bad = 0; g_nslot = 0; g_mx = CC_ORIG; g_reg = -1; g_reg_val = CC_UNKNOWN;
  cc_mxcsr (c);
  REACH ();
}
#endif
