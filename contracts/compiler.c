/* Wrapper TU for orc/orccompiler.c (property C05): target-independent passes. */
#include "stubs/prelude.h"
#include "/repo/orc/orccompiler.c"
#include "stubs/log_stub.c"

#define NTAB 6
OrcStaticOpcode g_optab[NTAB];   /* opcode table: arbitrary entries with operand sizes in 0..8 (true of the sys table) */

/* every instruction the pass looks at is well formed: opcode inside the table, operand indices inside vars[] */
#define INSN_WF(c, j) ( __CPROVER_same_object((c)->insns[j].opcode, g_optab) && \
   __CPROVER_POINTER_OFFSET((c)->insns[j].opcode) % sizeof(OrcStaticOpcode) == 0 && \
   __CPROVER_POINTER_OFFSET((c)->insns[j].opcode) < sizeof(OrcStaticOpcode) * NTAB && \
   (c)->insns[j].dest_args[0] >= 0 && (c)->insns[j].dest_args[0] < ORC_N_COMPILER_VARIABLES && \
   (c)->insns[j].dest_args[1] >= 0 && (c)->insns[j].dest_args[1] < ORC_N_COMPILER_VARIABLES && \
   (c)->insns[j].src_args[0] >= 0 && (c)->insns[j].src_args[0] < ORC_N_COMPILER_VARIABLES && \
   (c)->insns[j].src_args[1] >= 0 && (c)->insns[j].src_args[1] < ORC_N_COMPILER_VARIABLES && \
   (c)->insns[j].src_args[2] >= 0 && (c)->insns[j].src_args[2] < ORC_N_COMPILER_VARIABLES && \
   (c)->insns[j].src_args[3] >= 0 && (c)->insns[j].src_args[3] < ORC_N_COMPILER_VARIABLES )

/* size checking: either the program is rejected (fatal parse result) or the largest operand size is recorded;
 * that size is at least 1 whatever the program (also with zero instructions): later passes divide by it */
static void orc_compiler_check_sizes (OrcCompiler *compiler)
__CPROVER_requires(__CPROVER_rw_ok(compiler, sizeof(OrcCompiler)) && compiler->n_insns >= 0 && compiler->n_insns <= ORC_N_INSNS)
__CPROVER_requires(__CPROVER_forall { int j; (0 <= j && j < ORC_N_INSNS) ==> (j < compiler->n_insns ==> INSN_WF(compiler, j)) })
__CPROVER_assigns(compiler->error, compiler->result, compiler->max_var_size)
__CPROVER_ensures(compiler->result == ORC_COMPILE_RESULT_UNKNOWN_PARSE || (
     compiler->result == __CPROVER_old(compiler->result) && compiler->error == __CPROVER_old(compiler->error) &&
     compiler->max_var_size >= 1 && compiler->max_var_size <= 32));

void h_check_sizes(void) {
  for (int k = 0; k < NTAB; k++) {
    for (int d = 0; d < ORC_STATIC_OPCODE_N_DEST; d++) __CPROVER_assume(g_optab[k].dest_size[d] >= 0 && g_optab[k].dest_size[d] <= 8);
    for (int s = 0; s < ORC_STATIC_OPCODE_N_SRC; s++) __CPROVER_assume(g_optab[k].src_size[s] >= 0 && g_optab[k].src_size[s] <= 8);
  }
  OrcCompiler *c = malloc(sizeof(*c)); __CPROVER_assume(c != NULL);
  /* opcode pointers are assigned (not assumed) so that CBMC knows where they point */
  for (int j = 0; j < ORC_N_INSNS; j++) { int k = nondet_int(); __CPROVER_assume(k >= 0 && k < NTAB); c->insns[j].opcode = &g_optab[k]; }
  orc_compiler_check_sizes(c);
  REACH();
}

/* the same contract on programs of at most 2 instructions with the loops unwound: needs no loop invariant, so it does
 * not depend on the names of the pass's local variables (bounded companion of the unbounded unit above) */
void h_check_sizes_small(void) {
  for (int k = 0; k < NTAB; k++) {
    for (int d = 0; d < ORC_STATIC_OPCODE_N_DEST; d++) __CPROVER_assume(g_optab[k].dest_size[d] >= 0 && g_optab[k].dest_size[d] <= 8);
    for (int s = 0; s < ORC_STATIC_OPCODE_N_SRC; s++) __CPROVER_assume(g_optab[k].src_size[s] >= 0 && g_optab[k].src_size[s] <= 8);
  }
  OrcCompiler *c = malloc(sizeof(*c)); __CPROVER_assume(c != NULL);
  __CPROVER_assume(c->n_insns >= 0 && c->n_insns <= 2);
  /* a compiler object is zero-initialised by orc_program_compile_full before the passes run */
  c->max_var_size = 0;
  for (int j = 0; j < 2; j++) { int k = nondet_int(); __CPROVER_assume(k >= 0 && k < NTAB); c->insns[j].opcode = &g_optab[k]; }
  orc_compiler_check_sizes(c);
  REACH();
}
