/* Wrapper TU for the emulation driver orc_executor_emulate (orc/orcexecutor.c): properties C02 (chunk protocol, x2/x4
 * lane counts, staging of constants/parameters), C03 (every operand footprint inside what it is entitled to), C20 (the
 * function called is the one in the opcode's table entry).  Bounded: one instruction, n <= 40, m <= 2. */
#include "stubs/prelude.h"
#ifndef NMAX_DRV
#define NMAX_DRV 17
#endif
int verif_sprintf_buf (char *buf);
#define sprintf(buf, ...) verif_sprintf_buf(buf)
#include "/repo/orc/orcutils.c"
#include "/repo/orc/orcexecutor.c"
#undef sprintf
#include "stubs/log_stub.c"
int verif_sprintf_buf (char *buf) { __CPROVER_assert(__CPROVER_w_ok(buf, 40), "name placeholder writable"); buf[0] = 0; return 0; }
int orc_program_find_var_by_name (OrcProgram *program, const char *name) { return nondet_int(); }

/* ghost description of the one instruction under test */
OrcStaticOpcode g_op;
OrcCode *g_code;
OrcExecutor *g_ex;
int g_N, g_M, g_shift;
int g_calls, g_row, g_next_offset;
long g_rowbytes[ORC_N_VARIABLES];   /* bytes per row the caller provided for each array variable */

static int is_array(int vt) { return vt == ORC_VAR_TYPE_SRC || vt == ORC_VAR_TYPE_DEST; }

/* stands for the opcode's emulation function: checks everything the driver owes it */
void check_emulateN (OrcOpcodeExecutor *oex, int offset, int n)
{
  OrcInstruction *insn = &g_code->insns[0];
  __CPROVER_assert(offset == g_next_offset && offset % 16 == 0 && offset >= 0 && offset < g_N, "chunks are issued in increasing order, 16 elements apart, inside [0,n)");
  int want = ((g_N - offset >= 16) ? 16 : (g_N - offset)) << g_shift;
  __CPROVER_assert(n == want && oex->shift == g_shift, "element count = min(16, n - offset) scaled by the x2/x4 lane count");
  for (int k = 0; k < ORC_STATIC_OPCODE_N_DEST; k++) {
    if (g_op.dest_size[k] == 0) continue;
    OrcCodeVariable *v = &g_code->vars[insn->dest_args[k]];
    if (is_array(v->vartype))
      __CPROVER_assert(__CPROVER_w_ok(oex->dest_ptrs[k], (long)(offset + n) * g_op.dest_size[k]) && (long)(offset + n) * g_op.dest_size[k] <= g_rowbytes[insn->dest_args[k]], "destination row covers elements [0, offset+n)");
    else if (v->vartype == ORC_VAR_TYPE_ACCUMULATOR)
      __CPROVER_assert(oex->dest_ptrs[k] == (void *)&g_ex->accumulators[insn->dest_args[k] - ORC_VAR_A1], "accumulator destination is the executor's accumulator cell");
    else
      __CPROVER_assert(__CPROVER_w_ok(oex->dest_ptrs[k], (long)n * g_op.dest_size[k]), "scratch destination holds n elements of the opcode's size");
  }
  for (int k = 0; k < ORC_STATIC_OPCODE_N_SRC; k++) {
    if (g_op.src_size[k] == 0) continue;
    OrcCodeVariable *v = &g_code->vars[insn->src_args[k]];
    if (is_array(v->vartype))
      __CPROVER_assert(__CPROVER_r_ok(oex->src_ptrs[k], (long)(offset + n) * g_op.src_size[k]) && (long)(offset + n) * g_op.src_size[k] <= g_rowbytes[insn->src_args[k]], "source row covers elements [0, offset+n)");
    else if (v->vartype == ORC_VAR_TYPE_CONST || v->vartype == ORC_VAR_TYPE_PARAM)
      __CPROVER_assert(__CPROVER_r_ok(oex->src_ptrs[k], 8), "constant/parameter staged as a readable 64-bit cell");
    else
      __CPROVER_assert(__CPROVER_r_ok(oex->src_ptrs[k], (long)n * g_op.src_size[k]), "scratch source holds n elements of the opcode's size");
  }
  g_calls++;
  g_next_offset = offset + 16;
  if (g_next_offset >= g_N) { g_next_offset = 0; g_row++; }
}

static int pick_size(void) { int s = nondet_int(); __CPROVER_assume(s == 1 || s == 2 || s == 4 || s == 8); return s; }

void h_emulate(void) {
  g_code = malloc(sizeof(OrcCode)); g_ex = malloc(sizeof(OrcExecutor)); __CPROVER_assume(g_code && g_ex);
  g_code->n_insns = 1;
  g_code->insns = malloc(sizeof(OrcInstruction)); g_code->vars = malloc(sizeof(OrcCodeVariable) * ORC_N_COMPILER_VARIABLES);
  __CPROVER_assume(g_code->insns && g_code->vars);
  for (int i = 0; i < ORC_N_COMPILER_VARIABLES; i++) g_code->vars[i].size = 0;
  /* opcode shape */
  g_op.dest_size[0] = pick_size(); g_op.dest_size[1] = nondet_bool() ? 0 : pick_size();
  g_op.src_size[0] = pick_size(); g_op.src_size[1] = nondet_bool() ? 0 : pick_size(); g_op.src_size[2] = 0; g_op.src_size[3] = 0;
  g_op.emulateN = check_emulateN;
  OrcInstruction *insn = &g_code->insns[0];
  insn->opcode = &g_op;
  int f = nondet_int(); __CPROVER_assume(f == 0 || f == ORC_INSTRUCTION_FLAG_X2 || f == ORC_INSTRUCTION_FLAG_X4);
  insn->flags = f; g_shift = (f == ORC_INSTRUCTION_FLAG_X2) ? 1 : (f == ORC_INSTRUCTION_FLAG_X4 ? 2 : 0);
  g_N = nondet_int(); __CPROVER_assume(g_N >= 0 && g_N <= NMAX_DRV);
  g_code->is_2d = nondet_bool(); g_M = g_code->is_2d ? nondet_int() : 1; __CPROVER_assume(g_M >= 1 && g_M <= 2);
  g_ex->n = g_N; g_ex->params[ORC_VAR_A1] = g_M;
  g_ex->program = NULL; g_ex->arrays[ORC_VAR_A2] = g_code;
  /* operands: what orc_compiler_check_sizes and the rewriting pass guarantee about compiled code */
  int used[6]; int cnt = 0;
  for (int k = 0; k < 6; k++) {
    int isdest = k < 2; int sz = isdest ? g_op.dest_size[k] : g_op.src_size[k - 2];
    /* variable index and kind go together (ORC_VAR_D1.., S1.., A1.., C1.., P1.., T1..): pick the class, then one of the
     * first two slots of that class */
    int cls = nondet_int(); int slot = nondet_int(); __CPROVER_assume(slot == 0 || slot == 1);
    int idx, vt;
    if (isdest) {
      __CPROVER_assume(cls >= 0 && cls < 3);
      idx = (cls == 0 ? ORC_VAR_D1 : (cls == 1 ? ORC_VAR_A1 : ORC_VAR_T1)) + slot;
      vt = cls == 0 ? ORC_VAR_TYPE_DEST : (cls == 1 ? ORC_VAR_TYPE_ACCUMULATOR : ORC_VAR_TYPE_TEMP);
    } else {
      __CPROVER_assume(cls >= 0 && cls < 5);
      idx = (cls == 0 ? ORC_VAR_S1 : (cls == 1 ? ORC_VAR_D1 + 2 : (cls == 2 ? ORC_VAR_C1 : (cls == 3 ? ORC_VAR_P1 : ORC_VAR_T1 + 2)))) + slot;
      vt = cls == 0 ? ORC_VAR_TYPE_SRC : (cls == 1 ? ORC_VAR_TYPE_DEST : (cls == 2 ? ORC_VAR_TYPE_CONST : (cls == 3 ? ORC_VAR_TYPE_PARAM : ORC_VAR_TYPE_TEMP)));
    }
    if (isdest) insn->dest_args[k] = idx; else insn->src_args[k - 2] = idx;
    if (sz == 0) continue;
    for (int q = 0; q < cnt; q++) __CPROVER_assume(used[q] != idx);
    used[cnt++] = idx;
    OrcCodeVariable *v = &g_code->vars[idx];
    v->vartype = vt;
    /* arrays are only touched by (x1) load/store instructions */
    if (is_array(vt)) __CPROVER_assume(f == 0);
    v->size = (vt == ORC_VAR_TYPE_CONST || vt == ORC_VAR_TYPE_PARAM) ? pick_size() : (sz << g_shift);
    if (is_array(vt)) {
      int stride = nondet_int(); __CPROVER_assume(stride >= g_N * v->size && stride <= g_N * v->size + 32);
      g_rowbytes[idx] = (long)g_N * v->size;
      g_ex->params[idx] = stride;
      /* one object holding M rows; the last row has exactly n elements (nothing beyond it is accessible) */
      g_ex->arrays[idx] = malloc((long)stride * (g_M - 1) + (long)g_N * v->size);
      __CPROVER_assume(g_ex->arrays[idx] != NULL);
    }
  }
  g_calls = 0; g_row = 0; g_next_offset = 0;
  orc_executor_emulate(g_ex);
  __CPROVER_assert(g_calls == g_M * ((g_N + 15) / 16), "every row is covered by ceil(n/16) chunks, nothing more");
  __CPROVER_assert(g_ex->accumulators[0] == 0 || g_code->vars[insn->dest_args[0]].vartype == ORC_VAR_TYPE_ACCUMULATOR, "accumulators start from zero");
  REACH();
}
