/* Wrapper TU for orc/orcexecutor.c (properties C06 dispatch, C20 emulation dispatch, C02 driver). */
#include "stubs/prelude.h"
#include "/repo/orc/orcutils.c"
#include "/repo/orc/orcexecutor.c"
#include "stubs/log_stub.c"

int orc_program_find_var_by_name (OrcProgram *program, const char *name) { return nondet_int(); }

/* ghost call counters for the three kinds of callee a dispatch can reach */
int g_calls_native, g_calls_backup, g_calls_emulate;
OrcExecutor *g_last_ex;
void stub_native (OrcExecutor *ex) { g_calls_native++; g_last_ex = ex; }
void stub_backup (OrcExecutor *ex) { g_calls_backup++; g_last_ex = ex; }

/* the emulation driver, as seen by the dispatchers */
void orc_executor_emulate (OrcExecutor *ex)
__CPROVER_requires(__CPROVER_rw_ok(ex, sizeof(*ex)))
__CPROVER_assigns(g_calls_emulate, g_last_ex)
__CPROVER_ensures(g_calls_emulate == __CPROVER_old(g_calls_emulate) + 1 && g_last_ex == ex);

#define FUNC_IS(f, g) ((void *)(f) == (void *)(g))
/* run: the program's (or detached code's) executable entry when there is one, else emulation -- exactly one call */
void orc_executor_run (OrcExecutor *ex)
__CPROVER_requires(__CPROVER_rw_ok(ex, sizeof(*ex)))
__CPROVER_requires(ex->program != NULL ? __CPROVER_r_ok(ex->program, sizeof(OrcProgram)) : __CPROVER_r_ok((OrcCode *)ex->arrays[ORC_VAR_A2], sizeof(OrcCode)))
__CPROVER_requires(g_calls_native == 0 && g_calls_backup == 0 && g_calls_emulate == 0)
__CPROVER_assigns(g_calls_native, g_calls_backup, g_calls_emulate, g_last_ex)
__CPROVER_ensures(g_calls_native + g_calls_backup + g_calls_emulate == 1 && g_last_ex == ex)
__CPROVER_ensures(ex->program != NULL ==> (
     (ex->program->code_exec == NULL ==> g_calls_emulate == 1) &&
     (FUNC_IS(ex->program->code_exec, stub_native) ==> g_calls_native == 1) &&
     (FUNC_IS(ex->program->code_exec, stub_backup) ==> g_calls_backup == 1)))
__CPROVER_ensures(ex->program == NULL ==> (
     (((OrcCode *)ex->arrays[ORC_VAR_A2])->exec == NULL ==> g_calls_emulate == 1) &&
     (FUNC_IS(((OrcCode *)ex->arrays[ORC_VAR_A2])->exec, stub_native) ==> g_calls_native == 1)));

/* run_backup: the registered backup function exactly once when there is one (program attached), else as above */
void orc_executor_run_backup (OrcExecutor *ex)
__CPROVER_requires(__CPROVER_rw_ok(ex, sizeof(*ex)))
__CPROVER_requires(ex->program != NULL ? __CPROVER_r_ok(ex->program, sizeof(OrcProgram)) : __CPROVER_r_ok((OrcCode *)ex->arrays[ORC_VAR_A2], sizeof(OrcCode)))
__CPROVER_requires(g_calls_native == 0 && g_calls_backup == 0 && g_calls_emulate == 0)
__CPROVER_assigns(g_calls_native, g_calls_backup, g_calls_emulate, g_last_ex)
__CPROVER_ensures(g_calls_native + g_calls_backup + g_calls_emulate == 1 && g_last_ex == ex)
__CPROVER_ensures(ex->program != NULL ==> (
     (ex->program->backup_func == NULL ==> g_calls_emulate == 1) &&
     (FUNC_IS(ex->program->backup_func, stub_backup) ==> g_calls_backup == 1)));

/* set_program: the executor mirrors what the program can run right now */
void orc_executor_set_program (OrcExecutor *ex, OrcProgram *program)
__CPROVER_requires(__CPROVER_rw_ok(ex, sizeof(*ex)) && __CPROVER_r_ok(program, sizeof(OrcProgram)))
__CPROVER_assigns(ex->program, ex->arrays[ORC_VAR_A1], ex->arrays[ORC_VAR_A2])
__CPROVER_ensures(ex->program == program && ex->arrays[ORC_VAR_A2] == (void *)program->orccode)
__CPROVER_ensures(program->code_exec != NULL ? ex->arrays[ORC_VAR_A1] == (void *)program->code_exec
                                             : ex->arrays[ORC_VAR_A1] == (void *)orc_executor_emulate);

static OrcExecutor *mk_ex(void) {
  OrcExecutor *ex = malloc(sizeof(*ex)); __CPROVER_assume(ex != NULL);
  if (nondet_bool()) {
    OrcProgram *p = malloc(sizeof(*p)); __CPROVER_assume(p != NULL);
    int k = nondet_int();
    p->code_exec = k == 0 ? NULL : (k == 1 ? stub_native : (k == 2 ? stub_backup : (OrcExecutorFunc)orc_executor_emulate));
    int b = nondet_int();
    p->backup_func = b == 0 ? NULL : stub_backup;
    ex->program = p;
  } else {
    OrcCode *c = malloc(sizeof(*c)); __CPROVER_assume(c != NULL);
    int k = nondet_int();
    c->exec = k == 0 ? NULL : (k == 1 ? stub_native : (OrcExecutorFunc)orc_executor_emulate);
    ex->program = NULL; ex->arrays[ORC_VAR_A2] = c;
  }
  g_calls_native = g_calls_backup = g_calls_emulate = 0;
  return ex;
}
void h_run(void) { OrcExecutor *ex = mk_ex(); orc_executor_run(ex); REACH(); }
void h_run_backup(void) { OrcExecutor *ex = mk_ex(); orc_executor_run_backup(ex); REACH(); }
void h_set_program(void) { OrcExecutor *ex = mk_ex(); OrcProgram *p = malloc(sizeof(*p)); __CPROVER_assume(p != NULL); orc_executor_set_program(ex, p); REACH(); }
