/* Contracts for the program-construction API of orc/orcprogram.c (used with --replace-call-with-contract by
 * the parser and bytecode proofs, and ENFORCED against the real bodies by the C05 units).
 * Included AFTER the orc headers. */
#ifndef VERIF_PROGRAM_API_H
#define VERIF_PROGRAM_API_H

/* counters within capacity: what every add_xxx / append relies on to stay inside vars[] / insns[] */
#define PROGRAM_COUNTS_OK(p) ( \
    (p)->n_insns >= 0 && (p)->n_insns <= ORC_N_INSNS && \
    (p)->n_src_vars >= 0 && (p)->n_src_vars <= ORC_MAX_SRC_VARS && \
    (p)->n_dest_vars >= 0 && (p)->n_dest_vars <= ORC_MAX_DEST_VARS && \
    (p)->n_param_vars >= 0 && (p)->n_param_vars <= ORC_MAX_PARAM_VARS && \
    (p)->n_const_vars >= 0 && (p)->n_const_vars <= ORC_MAX_CONST_VARS && \
    (p)->n_temp_vars >= 0 && (p)->n_temp_vars <= ORC_MAX_TEMP_VARS && \
    (p)->n_accum_vars >= 0 && (p)->n_accum_vars <= ORC_MAX_ACCUM_VARS)

/* API_OPAQUE: for callers that never read program state themselves (checked syntactically by the unit generator),
 * the construction calls are modelled without a frame on the program object: what they write is invisible to such a
 * caller, and havocking the 22 kB object on every call makes the caller's proof intractable. */
#ifdef API_OPAQUE
#define API_ASSIGNS(tgt) __CPROVER_assigns()
#else
#define API_ASSIGNS(tgt) __CPROVER_assigns(tgt)
#endif
#define PROGRAM_OK(p) (__CPROVER_rw_ok((p), sizeof(OrcProgram)) && PROGRAM_COUNTS_OK(p))
#define IS_STR(s) (__CPROVER_r_ok((s), 1))

#define ADD_VAR_CONTRACT(fn) \
int fn (OrcProgram *program, int size, const char *name) \
__CPROVER_requires(PROGRAM_OK(program)) \
__CPROVER_requires(IS_STR(name)) \
API_ASSIGNS(__CPROVER_object_whole(program)) \
__CPROVER_ensures(PROGRAM_OK(program)) \
__CPROVER_ensures(__CPROVER_return_value >= 0 && __CPROVER_return_value < ORC_N_VARIABLES) \
__CPROVER_ensures(program->n_insns == __CPROVER_old(program->n_insns));

ADD_VAR_CONTRACT(orc_program_add_temporary)
ADD_VAR_CONTRACT(orc_program_add_source)
ADD_VAR_CONTRACT(orc_program_add_destination)
ADD_VAR_CONTRACT(orc_program_add_accumulator)
ADD_VAR_CONTRACT(orc_program_add_parameter)
ADD_VAR_CONTRACT(orc_program_add_parameter_float)
ADD_VAR_CONTRACT(orc_program_add_parameter_double)
ADD_VAR_CONTRACT(orc_program_add_parameter_int64)

int orc_program_add_constant_str (OrcProgram *program, int size, const char *value, const char *name)
__CPROVER_requires(PROGRAM_OK(program))
__CPROVER_requires(IS_STR(value) && IS_STR(name))
API_ASSIGNS(__CPROVER_object_whole(program))
__CPROVER_ensures(PROGRAM_OK(program))
/* -1: the literal is not a number; 0: no room; else the index of the (new or reused) constant */
__CPROVER_ensures(__CPROVER_return_value == -1 || __CPROVER_return_value == 0 ||
   (__CPROVER_return_value >= ORC_VAR_C1 && __CPROVER_return_value < ORC_VAR_C1 + ORC_MAX_CONST_VARS))
__CPROVER_ensures(__CPROVER_return_value >= ORC_VAR_C1 ==>
   __CPROVER_is_fresh(program->vars[__CPROVER_return_value >= ORC_VAR_C1 ? __CPROVER_return_value : ORC_VAR_C1].name, 1))
__CPROVER_ensures(program->n_insns == __CPROVER_old(program->n_insns));

void orc_program_set_type_name (OrcProgram *program, int var, const char *type_name)
__CPROVER_requires(PROGRAM_OK(program) && var >= 0 && var < ORC_N_VARIABLES && IS_STR(type_name))
API_ASSIGNS(program->vars[var].type_name)
__CPROVER_ensures(PROGRAM_OK(program));

void orc_program_set_var_alignment (OrcProgram *program, int var, int alignment)
__CPROVER_requires(PROGRAM_OK(program) && var >= 0 && var < ORC_N_VARIABLES)
API_ASSIGNS(program->vars[var].alignment)
#ifndef API_OPAQUE
__CPROVER_ensures(program->vars[var].alignment == alignment)
#endif
;

#define SETTER_INT(fn, field) \
void fn (OrcProgram *program, int v) \
__CPROVER_requires(PROGRAM_OK(program)) \
API_ASSIGNS(program->field) \
__CPROVER_ensures(PROGRAM_OK(program));
SETTER_INT(orc_program_set_constant_n, constant_n)
SETTER_INT(orc_program_set_n_multiple, n_multiple)
SETTER_INT(orc_program_set_n_minimum, n_minimum)
SETTER_INT(orc_program_set_n_maximum, n_maximum)
SETTER_INT(orc_program_set_constant_m, constant_m)
SETTER_INT(orc_program_set_line, current_line)

void orc_program_set_2d (OrcProgram *program)
__CPROVER_requires(PROGRAM_OK(program))
API_ASSIGNS(program->is_2d)
__CPROVER_ensures(PROGRAM_OK(program));

void orc_program_set_name (OrcProgram *program, const char *name)
__CPROVER_requires(PROGRAM_OK(program) && IS_STR(name))
API_ASSIGNS(program->name)
__CPROVER_ensures(PROGRAM_OK(program));

void orc_program_set_backup_name (OrcProgram *program, const char *name)
__CPROVER_requires(PROGRAM_OK(program) && IS_STR(name))
API_ASSIGNS(program->backup_name)
__CPROVER_ensures(PROGRAM_OK(program));

OrcProgram * orc_program_new (void)
__CPROVER_assigns()
__CPROVER_ensures(__CPROVER_is_fresh(__CPROVER_return_value, sizeof(OrcProgram)))
__CPROVER_ensures(PROGRAM_COUNTS_OK(__CPROVER_return_value) && __CPROVER_return_value->n_insns == 0)
__CPROVER_ensures(__CPROVER_return_value->name == NULL);

/* argv[0..argc) are strings or NULL (find_var_by_name accepts NULL).  No room is required of the caller: the
 * public API must itself refuse the 101st instruction (finding F1 when it does not). */
int orc_program_append_str_n (OrcProgram *program, const char *name, unsigned int flags, int argc, const char **argv)
__CPROVER_requires(PROGRAM_OK(program) && IS_STR(name))
__CPROVER_requires(argc >= 0 && argc <= 6 && __CPROVER_r_ok(argv, sizeof(char *) * 6))
API_ASSIGNS(__CPROVER_object_whole(program))
__CPROVER_ensures(PROGRAM_OK(program))
__CPROVER_ensures(__CPROVER_return_value >= -1 && __CPROVER_return_value <= 6)
__CPROVER_ensures(program->n_insns == __CPROVER_old(program->n_insns) + (__CPROVER_return_value == 0 ? 1 : 0));

#endif
