/* Wrapper TU for the register allocator in orc/orccompiler.c (properties C17, C10 chain, C05 bounds).
 * REGALLOC_SRC is a mechanically extracted copy of orc/orccompiler.c (variadic orc_compiler_error calls made
 * non-variadic, see vlib/extract.py), regenerated on every run. */
#include "stubs/prelude.h"
int verif_sprintf_buf (char *buf);
#define sprintf(buf, ...) verif_sprintf_buf(buf)
#include "/repo/orc/orcutils.c"
#include REGALLOC_SRC
#undef sprintf
int verif_sprintf_buf (char *buf) { __CPROVER_assert(__CPROVER_w_ok(buf, 10), "temporary name buffer"); buf[0] = 0; return 0; }
size_t strlen (const char *s) { __CPROVER_assert(__CPROVER_r_ok(s, 1), "strlen argument"); size_t k = nondet_ulong(); __CPROVER_assume(k < 64); return k; }
#include "stubs/log_stub.c"
static void orc_compiler_error_nv (OrcCompiler *compiler, const char *fmt) {
  /* what orc_compiler_error_valist does, minus the formatting */
  if (compiler->error_msg) return;
  compiler->error_msg = malloc(1); compiler->error = TRUE; compiler->result = ORC_COMPILE_RESULT_UNKNOWN_COMPILE;
}
/* C17: the pseudo-random register offset exists only for testing */
int g_rand_calls;
int rand (void) { __CPROVER_assert(_orc_compiler_flag_randomize, "rand() is reachable only under ORC_CODE=randomize"); g_rand_calls++; return nondet_int(); }

/* the allocation is a function of the compiler state (spec: first candidate in the 32-window that is valid, not
 * callee-saved and free; else first valid free register in the 64-window, stopping at the vector range for gp) */
static int spec_alloc (const OrcCompiler *c, int data_reg) {
  int offset = data_reg ? c->target->data_register_offset : ORC_GP_REG_BASE;
  for (int i = 0; i < 32; i++) { int r = offset + i; if (c->valid_regs[r] && !c->save_regs[r] && c->alloc_regs[r] == 0) return r; }
  for (int i = 0; i < 64; i++) { int r = offset + i; if (r >= c->target->data_register_offset && !data_reg) break; if (c->valid_regs[r] && c->alloc_regs[r] == 0) return r; }
  return 0;
}
int g_r;          /* ghost register index */
int g_expected;   /* ghost: value of the spec function in the pre-state */
static int orc_compiler_allocate_register (OrcCompiler *compiler, int data_reg)
__CPROVER_requires(__CPROVER_rw_ok(compiler, sizeof(OrcCompiler)) && __CPROVER_r_ok(compiler->target, sizeof(OrcTarget)))
__CPROVER_requires(compiler->target->data_register_offset >= ORC_GP_REG_BASE && compiler->target->data_register_offset <= 64)
__CPROVER_requires(_orc_compiler_flag_randomize == 0)
__CPROVER_requires(g_expected == spec_alloc(compiler, data_reg))
__CPROVER_requires(g_r >= 0 && g_r < ORC_N_REGS && compiler->alloc_regs[g_r] >= 0 && compiler->alloc_regs[g_r] < 1000)
__CPROVER_assigns(__CPROVER_object_whole(compiler))
__CPROVER_ensures(__CPROVER_return_value == g_expected)
__CPROVER_ensures(__CPROVER_return_value >= 0 && __CPROVER_return_value < ORC_N_REGS)
/* an allocated register is marked used (so the prologue saves it when it is callee-saved) and counted once */
__CPROVER_ensures((__CPROVER_return_value != 0 && g_r == __CPROVER_return_value) ==>
     (compiler->used_regs[g_r] == 1 && compiler->alloc_regs[g_r] == __CPROVER_old(compiler->alloc_regs[g_r]) + 1 && compiler->valid_regs[g_r]))
/* every other register's bookkeeping is untouched */
__CPROVER_ensures(g_r != __CPROVER_return_value ==> (compiler->alloc_regs[g_r] == __CPROVER_old(compiler->alloc_regs[g_r]) &&
     compiler->used_regs[g_r] == __CPROVER_old(compiler->used_regs[g_r])))
__CPROVER_ensures(g_rand_calls == 0);
void h_allocate_register(void) {
  OrcCompiler *c = malloc(sizeof(*c)); OrcTarget *t = malloc(sizeof(*t)); __CPROVER_assume(c && t);
  c->target = t; c->error_msg = NULL;
  g_r = nondet_int(); g_rand_calls = 0; _orc_compiler_flag_randomize = nondet_int();
  orc_compiler_allocate_register(c, nondet_int());
  REACH();
}

/* ================================================================ C05: temporaries (capacity and result classification) */
/* These run before any code object exists, so a failure here must be FATAL: a non-fatal result would promise "runnable by
 * emulation" for a program that has nothing to emulate. */
#define TEMPS_OK(c) ((c)->n_temp_vars >= 0 && (c)->n_dup_vars >= 0 && (c)->n_temp_vars <= 64 && (c)->n_dup_vars <= 64)
static int orc_compiler_new_temporary (OrcCompiler *compiler, int size)
__CPROVER_requires(__CPROVER_rw_ok(compiler, sizeof(OrcCompiler)) && TEMPS_OK(compiler) && compiler->error_msg == NULL)
__CPROVER_assigns(__CPROVER_object_whole(compiler))
__CPROVER_ensures(__CPROVER_return_value >= 0 && __CPROVER_return_value < ORC_N_COMPILER_VARIABLES)
__CPROVER_ensures(ORC_VAR_T1 + __CPROVER_old(compiler->n_temp_vars) + __CPROVER_old(compiler->n_dup_vars) < ORC_N_COMPILER_VARIABLES
    ? (compiler->n_dup_vars == __CPROVER_old(compiler->n_dup_vars) + 1 && compiler->vars[__CPROVER_return_value].size == size && compiler->vars[__CPROVER_return_value].name != NULL)
    : (compiler->error && ORC_COMPILE_RESULT_IS_FATAL(compiler->result) && compiler->n_dup_vars == __CPROVER_old(compiler->n_dup_vars)));
static int orc_compiler_dup_temporary (OrcCompiler *compiler, int var, int j)
__CPROVER_requires(__CPROVER_rw_ok(compiler, sizeof(OrcCompiler)) && TEMPS_OK(compiler) && compiler->error_msg == NULL)
__CPROVER_requires(var >= 0 && var < ORC_N_COMPILER_VARIABLES && __CPROVER_r_ok(compiler->vars[var].name, 1))
__CPROVER_assigns(__CPROVER_object_whole(compiler))
__CPROVER_ensures(__CPROVER_return_value >= 0 && __CPROVER_return_value < ORC_N_COMPILER_VARIABLES)
__CPROVER_ensures(ORC_VAR_T1 + __CPROVER_old(compiler->n_temp_vars) + __CPROVER_old(compiler->n_dup_vars) < ORC_N_COMPILER_VARIABLES
    ? (compiler->n_dup_vars == __CPROVER_old(compiler->n_dup_vars) + 1)
    : (compiler->error && ORC_COMPILE_RESULT_IS_FATAL(compiler->result) && compiler->n_dup_vars == __CPROVER_old(compiler->n_dup_vars)));
static OrcCompiler *mk_compiler(void) { OrcCompiler *c = malloc(sizeof(*c)); __CPROVER_assume(c != NULL); c->error_msg = NULL; return c; }
char g_vname[8];
void h_new_temporary(void) { OrcCompiler *c = mk_compiler(); orc_compiler_new_temporary(c, nondet_int()); REACH(); }
void h_dup_temporary(void) { OrcCompiler *c = mk_compiler(); int v = nondet_int(); __CPROVER_assume(v >= 0 && v < ORC_N_COMPILER_VARIABLES); g_vname[7] = 0; c->vars[v].name = g_vname; orc_compiler_dup_temporary(c, v, nondet_int()); REACH(); }

/* the same contract in assume(requires)/assert(ensures) form (dfcc form undecided at 50 min; DESIGN.md 7.2 fact 13) */
void hp_allocate_register(void) {
  OrcCompiler *c = malloc(sizeof(*c)); OrcTarget *t = malloc(sizeof(*t)); __CPROVER_assume(c && t);
  c->target = t; c->error_msg = NULL;
  int data_reg = nondet_int();
  g_r = nondet_int(); g_rand_calls = 0; _orc_compiler_flag_randomize = 0;
  __CPROVER_assume(t->data_register_offset >= ORC_GP_REG_BASE && t->data_register_offset <= 64);
  __CPROVER_assume(g_r >= 0 && g_r < ORC_N_REGS && c->alloc_regs[g_r] >= 0 && c->alloc_regs[g_r] < 1000);
  int expected = spec_alloc(c, data_reg);
  int old_alloc = c->alloc_regs[g_r], old_used = c->used_regs[g_r];
  int r = orc_compiler_allocate_register(c, data_reg);
  __CPROVER_assert(r == expected, "postcondition: the register is the spec function of the register tables");
  __CPROVER_assert(r >= 0 && r < ORC_N_REGS, "postcondition: a register number or 0");
  __CPROVER_assert(!(r != 0 && g_r == r) || (c->used_regs[g_r] == 1 && c->alloc_regs[g_r] == old_alloc + 1 && c->valid_regs[g_r]), "postcondition: the allocated register is marked used and counted once");
  __CPROVER_assert(g_r == r || (c->alloc_regs[g_r] == old_alloc && c->used_regs[g_r] == old_used), "postcondition: other registers' bookkeeping untouched");
  __CPROVER_assert(g_rand_calls == 0, "postcondition: no randomness without ORC_CODE=randomize");
  REACH();
}

/* ================================================================ C17: the register of a pooled constant is a function of
 * the compiler state alone.  Checked with ALL static storage nondeterministic (goto-instrument --nondet-static): whatever
 * earlier compiles left behind in static variables must not influence the answer. */
static int spec_const_reg (const OrcCompiler *c) {
  int top = c->max_used_temp_reg < c->min_temp_reg ? c->min_temp_reg : c->max_used_temp_reg;
  for (int r = top; r < ORC_VEC_REG_BASE + 32; r++) {
    if (!c->valid_regs[r]) continue;
    int busy = (r >= ORC_VEC_REG_BASE && r <= top);
    for (int j = 0; j < ORC_N_COMPILER_VARIABLES; j++)
      if (c->vars[j].alloc == r && c->vars[j].alloc != 0 && (c->vars[j].first_use == -1 || c->vars[j].last_use != -1)) busy = 1;
    for (int j = 0; j < ORC_N_CONSTANTS; j++)
      if (j < c->n_constants && c->constants[j].alloc_reg == r && r != 0) busy = 1;
    if (!busy) return r;
  }
  return 0;
}
void hp_get_constant_reg(void) {
  OrcCompiler *c = malloc(sizeof(*c)); __CPROVER_assume(c != NULL);
  __CPROVER_assume(c->n_constants >= 0 && c->n_constants <= ORC_N_CONSTANTS);
  __CPROVER_assume(c->max_used_temp_reg >= ORC_VEC_REG_BASE && c->max_used_temp_reg < ORC_VEC_REG_BASE + 32);
  __CPROVER_assume(c->min_temp_reg >= ORC_VEC_REG_BASE && c->min_temp_reg < ORC_VEC_REG_BASE + 32);
  for (int j = 0; j < ORC_N_COMPILER_VARIABLES; j++) __CPROVER_assume(c->vars[j].alloc >= 0 && c->vars[j].alloc < ORC_N_REGS);
  for (int j = 0; j < ORC_N_CONSTANTS; j++) __CPROVER_assume(c->constants[j].alloc_reg >= 0 && c->constants[j].alloc_reg < ORC_N_REGS);
  int expected = spec_const_reg(c);
  int r = orc_compiler_get_constant_reg(c);
  __CPROVER_assert(r == expected, "postcondition: the constant register is the spec function of the compiler state (no hidden static state)");
  REACH();
}

/* ================================================================ C16: orc_compiler_compile_program owns the compiler object
 * it is handed (orc_program_compile_full allocates it and returns the callee's result): on the path taken when the program
 * already carries an error it must release it too.  assume/assert form; --memory-leak-check is the postcondition. */
const char *orc_program_get_error (OrcProgram *program) { return program->error_msg; }
char g_errtxt[4];
void hp_compile_program_with_error(void) {
  OrcCompiler *c = malloc(sizeof(*c)); OrcProgram *p = malloc(sizeof(*p)); __CPROVER_assume(c != NULL && p != NULL);
  g_errtxt[0] = 'e'; g_errtxt[1] = nondet_char(); g_errtxt[3] = 0;
  p->error_msg = g_errtxt; p->name = g_errtxt;
  OrcCompileResult r = orc_compiler_compile_program(c, p, NULL, nondet_uint());
  __CPROVER_assert(r == ORC_COMPILE_RESULT_UNKNOWN_PARSE, "postcondition: a program that carries an error is not compiled");
  free(p);
  REACH();
}
