/* C10 ghost vocabulary of the compile-skeleton contract: the phase of the generated function the emitter is in, and for
 * every label the phase in which it is placed and the phase in which the first branch to it is emitted. */
#ifndef VERIF_SKELETON_H
#define VERIF_SKELETON_H
#define SK_LABELS 40     /* ORC_N_LABELS */
#define PH_NONE 0        /* nothing emitted yet */
#define PH_BODY 1        /* after the prologue */
#define PH_FLUSH 2       /* after set_mxcsr: flush-to-zero mode on */
#define PH_RESTORED 3    /* after restore_mxcsr */
#define PH_EMMS 4        /* after emms */
#define PH_DONE 5        /* after the epilogue */
extern int g_phase, g_label_phase[SK_LABELS], g_branch_phase[SK_LABELS];
#endif
