/* C10 ghost vocabulary of the compile-skeleton contract. */
#ifndef VERIF_SKELETON_H
#define VERIF_SKELETON_H
#define SK_LABELS 40     /* ORC_N_LABELS */
extern int g_t, g_label_pos[SK_LABELS], g_first_branch[SK_LABELS];
#endif
