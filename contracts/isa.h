/* C11: ISA contract shared by every emitter unit (rules and backend helpers).
 * Included by the generated wrapper TUs in out/gen/c11 with ISA_FORM_XMM / ISA_FORM_MM / ISA_FORM_AVX set. */
#include "contracts/isa_common.h"

int g_is_avx;             /* ghost: the target's name starts with "avx" (epilogue contract) */
extern unsigned g_need;   /* ghost, maintained by contracts/isa_emit_model.c */

#define ARG_OK(a) ((a) >= 0 && (a) < ORC_N_COMPILER_VARIABLES)

/* nothing emitted needs class cls unless the flags grant it */
#define CLS_OK(f, cls) ((g_need & (cls)) == 0 || (isa_have (f) & (cls)) != 0)

#define EMIT_REQUIRES(p) \
  __CPROVER_requires(__CPROVER_rw_ok(p, sizeof(OrcCompiler))) \
  __CPROVER_requires(g_need == 0) \
  __CPROVER_requires((p)->loop_shift >= 0 && (p)->loop_shift <= 5) \
  __CPROVER_requires((p)->insn_shift >= 0 && (p)->insn_shift <= 5) \
  __CPROVER_requires(((unsigned)(p)->target_flags & (unsigned)ISA_BASE_FLAG) == (unsigned)ISA_BASE_FLAG) \
  __CPROVER_assigns(__CPROVER_object_whole(p), g_need)

#define EMIT_ENSURES(p) \
  __CPROVER_ensures(CLS_OK (__CPROVER_old ((p)->target_flags), NEED_NA)) \
  __CPROVER_ensures(CLS_OK (__CPROVER_old ((p)->target_flags), NEED_MMX)) \
  __CPROVER_ensures(CLS_OK (__CPROVER_old ((p)->target_flags), NEED_MMXEXT)) \
  __CPROVER_ensures(CLS_OK (__CPROVER_old ((p)->target_flags), NEED_SSE)) \
  __CPROVER_ensures(CLS_OK (__CPROVER_old ((p)->target_flags), NEED_SSE2)) \
  __CPROVER_ensures(CLS_OK (__CPROVER_old ((p)->target_flags), NEED_SSE3)) \
  __CPROVER_ensures(CLS_OK (__CPROVER_old ((p)->target_flags), NEED_SSSE3)) \
  __CPROVER_ensures(CLS_OK (__CPROVER_old ((p)->target_flags), NEED_SSE41)) \
  __CPROVER_ensures(CLS_OK (__CPROVER_old ((p)->target_flags), NEED_SSE42)) \
  __CPROVER_ensures(CLS_OK (__CPROVER_old ((p)->target_flags), NEED_AVX)) \
  __CPROVER_ensures(CLS_OK (__CPROVER_old ((p)->target_flags), NEED_AVX2))

/* general-purpose emitters: nothing emitted needs any extension */
#define GP_ENSURES(p) __CPROVER_ensures(g_need == 0)

/* typed objects for the harnesses (objects created by is_fresh are byte arrays: much slower here) */
static OrcCompiler *mk_compiler(void)
{
  OrcCompiler *p = malloc (sizeof (OrcCompiler));
  __CPROVER_assume (p != NULL);
  return p;
}
static OrcInstruction *mk_insn(void)
{
  OrcInstruction *insn = malloc (sizeof (OrcInstruction));
  __CPROVER_assume (insn != NULL);
  OrcStaticOpcode *op = malloc (sizeof (OrcStaticOpcode));
  __CPROVER_assume (op != NULL);
  insn->opcode = op;
  return insn;
}
