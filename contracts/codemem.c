/* Wrapper TU for orc/orccodemem.c (properties C09, C06, C08): real file included verbatim. */
#include "stubs/prelude.h"
#include "stubs/os_stub.h"
/* the single sprintf call (temp-file name) is redirected to a non-variadic model: dfcc cannot instrument variadic calls */
int verif_sprintf3 (char *buf, const char *fmt, const char *dir);
#define sprintf(buf, fmt, dir) verif_sprintf3(buf, fmt, dir)
#include "/repo/orc/orccodemem.c"
#undef sprintf
#include "/repo/orc/orcutils.c"
#include "stubs/log_stub.c"
#include "stubs/os_stub.c"

/* globals defined in other translation units of the library */
int _orc_compiler_flag_debug;
int _orc_codemem_alignment;

/* ---------------------------------------------------------------- ghost lock (C08): non-recursive mutex */
int g_lock;
void orc_global_mutex_lock (void) { __CPROVER_assert(g_lock == 0, "global mutex not already held (non-recursive)"); g_lock = 1; }
void orc_global_mutex_unlock (void) { __CPROVER_assert(g_lock == 1, "unlock of a held global mutex"); g_lock = 0; }

/* ---------------------------------------------------------------- chunk window (local invariant) */
OrcCodeChunk *w_pp, *w_p, *w_c, *w_n, *w_nn;   /* consecutive chunks, ends may be NULL */
OrcCodeRegion *w_r;

#define C_OK(x) ((x)->region == w_r && (x)->size > 0 && (x)->offset >= 0 && (x)->offset + (x)->size <= w_r->size)
#define C_LINK(a, b) ((a)->next == (b) && (b)->prev == (a) && (b)->offset == (a)->offset + (a)->size)
#define C_NOADJ(a, b) (!((a)->used == 0 && (b)->used == 0))
#define REG_OK() (__CPROVER_rw_ok(w_r, sizeof(*w_r)) && w_r->size > 0 && w_r->size <= 65536)

/* window [pp] p c n [nn] around c: every present neighbour pair linked, offsets tile, no two adjacent free */
#define WIN_OK() ( REG_OK() && w_c != NULL && C_OK(w_c) && \
  (w_p == NULL ? (w_c->prev == NULL && w_c->offset == 0 && w_pp == NULL) : (C_OK(w_p) && C_LINK(w_p, w_c) && C_NOADJ(w_p, w_c))) && \
  (w_pp == NULL ? (w_p == NULL || w_p->prev == NULL || 1) : (w_p != NULL && C_OK(w_pp) && C_LINK(w_pp, w_p) && C_NOADJ(w_pp, w_p))) && \
  (w_n == NULL ? (w_c->next == NULL && w_c->offset + w_c->size == w_r->size && w_nn == NULL) : (C_OK(w_n) && C_LINK(w_c, w_n) && C_NOADJ(w_c, w_n))) && \
  (w_nn == NULL ? (w_n == NULL || (w_n->next == NULL && w_n->offset + w_n->size == w_r->size)) : (w_n != NULL && C_OK(w_nn) && C_LINK(w_n, w_nn) && C_NOADJ(w_n, w_nn))) )

static OrcCodeChunk *mk_chunk(void) {
  OrcCodeChunk *c = malloc(sizeof(*c)); __CPROVER_assume(c != NULL);
  __CPROVER_assume(c->used == 0 || c->used == 1);
  __CPROVER_assume(c->offset >= 0 && c->offset <= 65536 && c->size >= 0 && c->size <= 65536);
  return c;
}
static void mk_window(void) {
  w_r = malloc(sizeof(*w_r)); __CPROVER_assume(w_r != NULL);
  w_r->write_ptr = malloc(65536); w_r->exec_ptr = malloc(65536);
  __CPROVER_assume(w_r->write_ptr != NULL && w_r->exec_ptr != NULL);
  w_c = mk_chunk();
  w_p = nondet_bool() ? mk_chunk() : NULL;
  w_pp = (w_p && nondet_bool()) ? mk_chunk() : NULL;
  w_n = nondet_bool() ? mk_chunk() : NULL;
  w_nn = (w_n && nondet_bool()) ? mk_chunk() : NULL;
  /* links are ASSIGNED, not assumed: a pointer read from nondeterministic memory has no value set in CBMC */
  w_c->region = w_r; w_c->prev = w_p; w_c->next = w_n;
  if (w_p) { w_p->region = w_r; w_p->next = w_c; w_p->prev = w_pp; }
  if (w_pp) { w_pp->region = w_r; w_pp->next = w_p; }
  if (w_n) { w_n->region = w_r; w_n->prev = w_c; w_n->next = w_nn; }
  if (w_nn) { w_nn->region = w_r; w_nn->prev = w_n; }
  __CPROVER_assume(WIN_OK());
  if (w_p == NULL) w_r->chunks = w_c;
}

/* ---------------------------------------------------------------- split */
#ifndef LOCK_ONLY
static OrcCodeChunk * orc_code_chunk_split (OrcCodeChunk *chunk, int size)
__CPROVER_requires(g_lock == 1)                                  /* "Must be called with orc_global_mutex_lock()" */
__CPROVER_requires(WIN_OK() && chunk == w_c && size > 0 && size < chunk->size)
__CPROVER_assigns(chunk->size, chunk->next; w_n != NULL: w_n->prev)
__CPROVER_ensures(__CPROVER_is_fresh(__CPROVER_return_value, sizeof(OrcCodeChunk)))
__CPROVER_ensures(chunk->size == size && chunk->offset == __CPROVER_old(chunk->offset) && chunk->prev == __CPROVER_old(chunk->prev))
__CPROVER_ensures(C_OK(chunk) && C_OK(__CPROVER_return_value) && C_LINK(chunk, __CPROVER_return_value))
__CPROVER_ensures(__CPROVER_return_value->size == __CPROVER_old(chunk->size) - size && __CPROVER_return_value->used == 0)
__CPROVER_ensures(w_n == NULL ? (__CPROVER_return_value->next == NULL &&
                                 __CPROVER_return_value->offset + __CPROVER_return_value->size == w_r->size)
                              : C_LINK(__CPROVER_return_value, w_n))
__CPROVER_ensures(chunk->used == __CPROVER_old(chunk->used));
#else
/* C08 lock-discipline variant (-DLOCK_ONLY): the callee contracts say only what the lock discipline needs - split and the
 * free-chunk search must be entered with the global mutex held - so that they can be used in REPLACE mode inside
 * orc_code_allocate_codemem (the full contracts above are enforced in their own units; in replace mode their is_fresh
 * postconditions are fragile, tool fact 9) */
static OrcCodeChunk * orc_code_chunk_split (OrcCodeChunk *chunk, int size)
__CPROVER_requires(g_lock == 1)                                  /* "Must be called with orc_global_mutex_lock()" */
__CPROVER_requires(__CPROVER_rw_ok(chunk, sizeof(*chunk)))
__CPROVER_assigns(chunk->size, chunk->next)
__CPROVER_ensures(__CPROVER_is_fresh(__CPROVER_return_value, sizeof(OrcCodeChunk)));
#endif

/* ---------------------------------------------------------------- merge (chunk absorbs chunk->next) */
static void orc_code_chunk_merge (OrcCodeChunk *chunk)
__CPROVER_requires(g_lock == 1)
__CPROVER_requires(WIN_OK() && chunk == w_c && w_n != NULL && chunk->used == 0)
__CPROVER_assigns(chunk->next, chunk->size; w_nn != NULL: w_nn->prev)
__CPROVER_frees(w_n)
__CPROVER_ensures(chunk->size == __CPROVER_old(chunk->size) + __CPROVER_old(w_n->size))
__CPROVER_ensures(chunk->offset == __CPROVER_old(chunk->offset) && C_OK(chunk))
__CPROVER_ensures(__CPROVER_was_freed(w_n))
__CPROVER_ensures(w_nn == NULL ? (chunk->next == NULL && chunk->offset + chunk->size == w_r->size) : C_LINK(chunk, w_nn));

/* ---------------------------------------------------------------- free */
#define P_FREE (w_p != NULL && __CPROVER_old(w_p->used) == 0)
#define N_FREE (w_n != NULL && __CPROVER_old(w_n->used) == 0)
void orc_code_chunk_free (OrcCodeChunk *chunk)
__CPROVER_requires(g_lock == 0)
__CPROVER_requires(WIN_OK() && chunk == w_c && chunk->used == 1 && _orc_compiler_flag_debug == 0)
__CPROVER_assigns(g_lock, chunk->used, chunk->next, chunk->size; w_p != NULL: w_p->next, w_p->size; w_n != NULL: w_n->prev; w_nn != NULL: w_nn->prev)
__CPROVER_frees(w_c, w_n)
__CPROVER_ensures(g_lock == 0)
/* which nodes disappear */
__CPROVER_ensures(N_FREE ==> __CPROVER_was_freed(w_n))
__CPROVER_ensures(P_FREE ==> __CPROVER_was_freed(w_c))
/* survivor is free, starts where the leftmost merged chunk started and covers exactly the merged ranges */
__CPROVER_ensures(!P_FREE ==> (chunk->used == 0 && chunk->offset == __CPROVER_old(chunk->offset) &&
     chunk->size == __CPROVER_old(chunk->size) + (N_FREE ? __CPROVER_old(w_n->size) : 0) && chunk->prev == w_p))
__CPROVER_ensures(P_FREE ==> (w_p->used == 0 && w_p->offset == __CPROVER_old(w_p->offset) &&
     w_p->size == __CPROVER_old(w_p->size) + __CPROVER_old(w_c->size) + (N_FREE ? __CPROVER_old(w_n->size) : 0) && w_p->prev == w_pp))
/* links to the right neighbour that remains (n if it was used, else nn), tiling kept */
__CPROVER_ensures((!P_FREE && !N_FREE && w_n != NULL) ==> C_LINK(chunk, w_n))
__CPROVER_ensures((!P_FREE && N_FREE && w_nn != NULL) ==> C_LINK(chunk, w_nn))
__CPROVER_ensures((P_FREE && !N_FREE && w_n != NULL) ==> C_LINK(w_p, w_n))
__CPROVER_ensures((P_FREE && N_FREE && w_nn != NULL) ==> C_LINK(w_p, w_nn))
__CPROVER_ensures((!P_FREE && (N_FREE ? w_nn == NULL : w_n == NULL)) ==> (chunk->next == NULL && chunk->offset + chunk->size == w_r->size))
__CPROVER_ensures((P_FREE && (N_FREE ? w_nn == NULL : w_n == NULL)) ==> (w_p->next == NULL && w_p->offset + w_p->size == w_r->size))
/* maximal coalescing restored: the remaining neighbours of the survivor are in use */
__CPROVER_ensures((!N_FREE && w_n != NULL) ==> w_n->used == 1)
__CPROVER_ensures((N_FREE && w_nn != NULL) ==> w_nn->used == 1)
__CPROVER_ensures((!P_FREE && w_p != NULL) ==> w_p->used == 1)
__CPROVER_ensures((P_FREE && w_pp != NULL) ==> w_pp->used == 1);

void h_split(void) { mk_window(); g_lock = nondet_int(); int size = nondet_int(); orc_code_chunk_split(w_c, size); REACH(); }
void h_merge(void) { mk_window(); g_lock = nondet_int(); orc_code_chunk_merge(w_c); REACH(); }
void h_free(void) { mk_window(); g_lock = nondet_int(); _orc_compiler_flag_debug = nondet_int(); orc_code_chunk_free(w_c); REACH(); }

/* ---------------------------------------------------------------- allocate */
/* contract of the search, used in replace mode by allocate; enforced (bounded lists) in unit get_free_chunk */
static OrcCodeChunk * orc_code_region_get_free_chunk (int size)
__CPROVER_requires(g_lock == 1 && size > 0)
__CPROVER_assigns()
__CPROVER_ensures(__CPROVER_return_value == NULL || (__CPROVER_pointer_equals(__CPROVER_return_value, w_c) && w_c->used == 0 && size <= w_c->size));

OrcCode *g_code;
#ifndef LOCK_ONLY
void orc_code_allocate_codemem (OrcCode *code, int size)
__CPROVER_requires(g_lock == 0 && WIN_OK() && __CPROVER_rw_ok(code, sizeof(*code)))
__CPROVER_requires(size >= 0 && size <= 65536 && (_orc_codemem_alignment == 15 || _orc_codemem_alignment == 31 || _orc_codemem_alignment == 63))
__CPROVER_requires(w_r->size == 65536)
__CPROVER_assigns(g_lock, code->chunk, code->code, code->exec, code->code_size, w_c->used, w_c->size, w_c->next; w_n != NULL: w_n->prev)
__CPROVER_ensures(g_lock == 0)
__CPROVER_ensures(code->chunk == __CPROVER_old(code->chunk) || (code->chunk == w_c && w_c->used == 1 && C_OK(w_c) &&
     w_c->offset == __CPROVER_old(w_c->offset) && code->code_size == size && size <= w_c->size &&
     w_c->size <= __CPROVER_old(w_c->size) && w_c->size == (((size < 1 ? 1 : size) + _orc_codemem_alignment) & ~_orc_codemem_alignment) &&
     code->code == w_r->write_ptr + w_c->offset && code->exec == w_r->exec_ptr + w_c->offset &&
     (w_c->next != NULL ==> (C_OK(w_c->next) && w_c->next->prev == w_c && w_c->next->offset == w_c->offset + w_c->size)) &&
     (w_c->next == NULL ==> w_c->offset + w_c->size == w_r->size) &&
     ((w_c->next != NULL && w_c->next != w_n) ==> (w_c->next->used == 0 && (w_n == NULL ? (w_c->next->next == NULL && w_c->next->offset + w_c->next->size == w_r->size) : C_LINK(w_c->next, w_n))))));

#else
/* the chunk is marked used, and its fields are written, only between lock and unlock: expressed through the callees'
 * preconditions (search and split need the lock) and through the ghost g_used_unlocked set by the harness-visible hook below */
void orc_code_allocate_codemem (OrcCode *code, int size)
__CPROVER_requires(g_lock == 0 && WIN_OK() && __CPROVER_rw_ok(code, sizeof(*code)))
__CPROVER_requires(size >= 0 && size <= 65536 && (_orc_codemem_alignment == 15 || _orc_codemem_alignment == 31 || _orc_codemem_alignment == 63))
__CPROVER_requires(w_r->size == 65536)
__CPROVER_assigns(g_lock, code->chunk, code->code, code->exec, code->code_size, w_c->used, w_c->size, w_c->next)
__CPROVER_ensures(g_lock == 0);

#endif
void h_allocate(void) {
  mk_window(); g_lock = nondet_int(); _orc_codemem_alignment = nondet_int();
  OrcCode *code = malloc(sizeof(*code)); __CPROVER_assume(code != NULL);
  int size = nondet_int();
  orc_code_allocate_codemem(code, size);
  REACH();
}

/* ================================================================ C06: acquiring executable memory from a failing OS */
#define REGION_SET(r) ((r)->size == 65536 && __CPROVER_is_fresh((r)->exec_ptr, 65536) && (r)->write_ptr != NULL)
static int orc_code_region_allocate_codemem_dual_map (OrcCodeRegion *region, const char *dir, int force_unlink)
__CPROVER_requires(__CPROVER_rw_ok(region, sizeof(*region)) && __CPROVER_r_ok(dir, 1))
__CPROVER_requires(g_open_fds >= 0 && g_open_fds < 1000000 && g_live_maps >= 0 && g_live_maps < 1000000)
__CPROVER_assigns(region->exec_ptr, region->write_ptr, region->size, g_open_fds, g_live_maps, g_mkstemp_calls, g_mmap_calls)
/* every descriptor opened on the way is closed again, whatever fails */
__CPROVER_ensures(g_open_fds == __CPROVER_old(g_open_fds))
__CPROVER_ensures(__CPROVER_return_value == TRUE || __CPROVER_return_value == FALSE)
__CPROVER_ensures(__CPROVER_return_value == TRUE ==> (REGION_SET(region) && g_live_maps == __CPROVER_old(g_live_maps) + 2))
__CPROVER_ensures(__CPROVER_return_value == TRUE ==> __CPROVER_is_fresh(region->write_ptr, 65536))
/* failure leaves no mapping behind */
__CPROVER_ensures(__CPROVER_return_value == FALSE ==> g_live_maps == __CPROVER_old(g_live_maps));

static int orc_code_region_allocate_codemem_anon_map (OrcCodeRegion *region)
__CPROVER_requires(__CPROVER_rw_ok(region, sizeof(*region)) && g_live_maps >= 0 && g_live_maps < 1000000)
__CPROVER_assigns(region->exec_ptr, region->write_ptr, region->size, g_live_maps, g_mmap_calls)
__CPROVER_ensures(__CPROVER_return_value == TRUE ==> (REGION_SET(region) && g_live_maps == __CPROVER_old(g_live_maps) + 1))
__CPROVER_ensures(__CPROVER_return_value == TRUE ==> region->write_ptr == region->exec_ptr)
__CPROVER_ensures(__CPROVER_return_value == FALSE ==> g_live_maps == __CPROVER_old(g_live_maps));

int orc_code_region_allocate_codemem (OrcCodeRegion *region)
__CPROVER_requires(__CPROVER_rw_ok(region, sizeof(*region)))
__CPROVER_requires(g_open_fds >= 0 && g_open_fds < 1000000 && g_live_maps >= 0 && g_live_maps < 1000000)
__CPROVER_assigns(region->exec_ptr, region->write_ptr, region->size, g_open_fds, g_live_maps, g_mkstemp_calls, g_mmap_calls, __CPROVER_object_whole(g_env_val))
__CPROVER_ensures(g_open_fds == __CPROVER_old(g_open_fds))
__CPROVER_ensures(__CPROVER_return_value == TRUE ==> (REGION_SET(region) && g_live_maps > __CPROVER_old(g_live_maps)))
__CPROVER_ensures(__CPROVER_return_value == FALSE ==> g_live_maps == __CPROVER_old(g_live_maps));

/* NULL (nothing kept) or a region with usable mappings */
OrcCodeRegion * orc_code_region_alloc (void)
__CPROVER_requires(g_open_fds >= 0 && g_open_fds < 1000000 && g_live_maps >= 0 && g_live_maps < 1000000)
__CPROVER_assigns(g_open_fds, g_live_maps, g_mkstemp_calls, g_mmap_calls, __CPROVER_object_whole(g_env_val))
__CPROVER_ensures(g_open_fds == __CPROVER_old(g_open_fds))
__CPROVER_ensures(__CPROVER_return_value == NULL ==> g_live_maps == __CPROVER_old(g_live_maps))
__CPROVER_ensures(__CPROVER_return_value != NULL ==> (__CPROVER_is_fresh(__CPROVER_return_value, sizeof(OrcCodeRegion)) && REGION_SET(__CPROVER_return_value) &&
                  __CPROVER_return_value->chunks == NULL));

static OrcCodeRegion *mk_region(void) { OrcCodeRegion *r = malloc(sizeof(*r)); __CPROVER_assume(r != NULL); return r; }
static void mk_os(void) { g_open_fds = nondet_int(); g_live_maps = nondet_int(); _orc_compiler_flag_debug = nondet_int(); g_mmap_calls = 0; g_mkstemp_calls = 0; }
void h_dual_map(void) {
  mk_os(); OrcCodeRegion *r = mk_region();
  const char *dir = nondet_bool() ? "/tmp" : (g_env_val[7] = 0, g_env_val);
  orc_code_region_allocate_codemem_dual_map(r, dir, nondet_int());
  REACH();
}
void h_anon_map(void) { mk_os(); orc_code_region_allocate_codemem_anon_map(mk_region()); REACH(); }
void h_region_allocate(void) { mk_os(); orc_code_region_allocate_codemem(mk_region()); REACH(); }
void h_region_alloc(void) { mk_os(); orc_code_region_alloc(); REACH(); }
