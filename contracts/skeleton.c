/* C10 (structural part): the order in which orc_x86_compile emits the state-saving and state-restoring code, on every
 * path of the GENERATED code that the skeleton itself creates:
 *   prologue first, epilogue last, exactly once each (when anything is emitted at all);
 *   MXCSR: set at most once, restored exactly as often, set < restore < epilogue;
 *   emms (when the target has one) exactly once, before the epilogue;
 *   no branch emitted before the restoring code jumps to a label placed after it (nothing skips the restore / emms).
 * The callees that emit loop bodies, constants, strides and register spills are replaced by contracts that only
 * advance the event clock (they place and target no skeleton label: assumed, see evidence); the region-split helpers
 * (labels 6, 7) run unmodified; label/branch events come from the emit-layer abstraction (SK_GHOST). */
#include "contracts/isa_common.h"
#include "contracts/skeleton.h"
#include <orc/orcx86-private.h>
#include <orc/orcinternal.h>

extern unsigned g_need;
int g_bad;             /* ghost: a state-changing event happened in a phase in which it must not */
int g_n_pro, g_n_epi, g_n_set, g_n_restore, g_n_emms;
int g_L;               /* ghost: the label the no-skip postcondition looks at (arbitrary) */

/* --- callees cut out of the extracted copies (out/gen/c10/*_sk.c: the definitions of exactly these functions are renamed
 * real_<name>, everything else is the file as it is) and modelled by their effect on the ghost phase -------------------- */
void orc_x86_emit_prologue (OrcCompiler *compiler) { g_n_pro++; if (g_phase != PH_NONE) g_bad = 1; g_phase = PH_BODY; }
static void orc_x86_set_mxcsr (OrcX86Target *t, OrcCompiler *c) { g_n_set++; if (g_phase != PH_BODY) g_bad = 1; g_phase = PH_FLUSH; }
static void orc_x86_restore_mxcsr (OrcX86Target *t, OrcCompiler *c) { g_n_restore++; if (g_phase != PH_FLUSH) g_bad = 1; g_phase = PH_RESTORED; }
static void orc_x86_clear_emms (OrcX86Target *t, OrcCompiler *c) { if (t->clear_emms) { g_n_emms++; if (g_phase != PH_BODY && g_phase != PH_RESTORED) g_bad = 1; g_phase = PH_EMMS; } }
void orc_x86_emit_epilogue (OrcCompiler *compiler) { g_n_epi++; if (g_phase != PH_BODY && g_phase != PH_RESTORED && g_phase != PH_EMMS) g_bad = 1; g_phase = PH_DONE; }
static int orc_x86_get_max_alignment_var (OrcX86Target *t, OrcCompiler *c) { int r = nondet_int (); __CPROVER_assume (r >= -1 && r <= ORC_VAR_S8); if (r < 0) c->error = 1; return r; }
static void orc_x86_adjust_alignment (OrcX86Target *t, OrcCompiler *compiler) { }
static void orc_x86_emit_loop (OrcCompiler *compiler, int offset, int update) { }
static void orc_x86_save_registers (OrcX86Target *t, OrcCompiler *c) { }
static void orc_x86_restore_registers (OrcX86Target *t, OrcCompiler *c) { }
static void orc_x86_load_constants_outer (OrcX86Target *t, OrcCompiler *c) { }
static void orc_x86_load_constants_inner (OrcCompiler *c) { }
static void orc_x86_add_strides (OrcCompiler *c) { }
static void orc_x86_save_accumulators (OrcX86Target *t, OrcCompiler *c) { }
void orc_x86_calculate_offsets (OrcCompiler *p) { }
void orc_x86_output_insns (OrcCompiler *p) { }
void orc_x86_do_fixups (OrcCompiler *compiler) { }

int orc_program_has_float (OrcCompiler *compiler) { return nondet_int (); }

/* --- the contract (assume/assert form in the harness below) ------------------------------------------------------ */
#define X86T(c) ((OrcX86Target *)(c)->target->target_data)
/* a label placed in phase >= ph is reached only by branches emitted in phase >= ph: nothing jumps over the transition */
#define NOSKIP(ph) (g_label_phase[g_L] < (ph) || g_branch_phase[g_L] < 0 || g_branch_phase[g_L] >= (ph))

#include "out/gen/c10/orcprogram_x86_sk.c"
#include "stubs/log_stub.c"

static int st_get_shift (int size) { return nondet_int (); }
void h_x86_compile (void)
{
  OrcCompiler *c = malloc (sizeof (OrcCompiler)); OrcTarget *tg = malloc (sizeof (OrcTarget)); OrcX86Target *t = malloc (sizeof (OrcX86Target));
  OrcProgram *pr = malloc (sizeof (OrcProgram));
  __CPROVER_assume (c != NULL && tg != NULL && t != NULL && pr != NULL);
  tg->target_data = t; c->target = tg; c->program = pr; c->asm_code = NULL; t->get_shift = st_get_shift;
  g_phase = PH_NONE; g_bad = 0; g_n_pro = g_n_epi = g_n_set = g_n_restore = g_n_emms = 0;
  g_L = nondet_int ();
  __CPROVER_assume (g_L >= 0 && g_L < SK_LABELS);
  g_label_phase[g_L] = -1; g_branch_phase[g_L] = -1;   /* only the inspected label's entries are read */
  __CPROVER_assume (c->loop_shift >= 0 && c->loop_shift <= 5 && c->unroll_shift >= 0 && c->unroll_shift <= 1);
  __CPROVER_assume (t->label_step_up >= 0 && t->label_step_up <= 24);
  orc_x86_compile (c);
  __CPROVER_assert (g_bad == 0, "postcondition: prologue, set_mxcsr, restore_mxcsr, emms, epilogue are emitted in this order");
  __CPROVER_assert (g_n_pro == g_n_epi && g_n_pro <= 1 && (g_phase == PH_NONE || g_phase == PH_DONE), "postcondition: prologue and epilogue both or neither, once; the epilogue is last");
  __CPROVER_assert (g_n_set == g_n_restore && g_n_set <= 1 && g_n_set <= g_n_pro, "postcondition: MXCSR restored exactly as often as set");
  __CPROVER_assert (!(g_n_pro == 1 && t->clear_emms != NULL) || g_n_emms == 1, "postcondition: emms once when the target has one");
  __CPROVER_assert (g_n_restore != 1 || NOSKIP (PH_RESTORED), "postcondition: no branch skips restore_mxcsr");
  __CPROVER_assert (g_n_emms != 1 || NOSKIP (PH_EMMS), "postcondition: no branch skips emms");
  __CPROVER_assert (NOSKIP (PH_DONE) && g_label_phase[g_L] != PH_NONE, "postcondition: no label outside prologue..epilogue");
  REACH ();
}
