/* Wrapper TU for orc/orc.c and orc/orconce.h (property C08: lock discipline, sequential contracts only). */
#include "stubs/prelude.h"
#include "/repo/orc/orc.c"
#include "/repo/orc/orconce.h"
#include "stubs/log_stub.c"

/* ghost lock depths; both mutexes are non-recursive */
int g_lock, g_once_lock;
void orc_global_mutex_lock (void) { __CPROVER_assert(g_lock == 0, "global mutex not already held (non-recursive)"); g_lock = 1; }
void orc_global_mutex_unlock (void) { __CPROVER_assert(g_lock == 1, "unlock of a held global mutex"); g_lock = 0; }
void orc_once_mutex_lock (void) { __CPROVER_assert(g_once_lock == 0, "once mutex not already held (non-recursive)"); g_once_lock = 1; }
OrcOnce *g_leaving_once;   /* ghost: the object orc_once_leave is publishing (NULL outside leave) */
void orc_once_mutex_unlock (void) {
  __CPROVER_assert(g_once_lock == 1, "unlock of a held once mutex");
  /* the initialised flag is published BEFORE the lock is released: otherwise a second thread can take the lock, still see
   * inited == 0 and initialise again (this is the sequentially visible half of the protocol) */
  __CPROVER_assert(g_leaving_once == NULL || g_leaving_once->inited != 0, "once mutex released only after the initialised flag is published");
  g_once_lock = 0;
}

/* every registry initialiser runs inside the global lock */
int g_inits;
#define INIT_STUB(fn) void fn (void) { __CPROVER_assert(g_lock == 1, #fn " runs with the global mutex held"); g_inits++; }
INIT_STUB(_orc_debug_init) INIT_STUB(_orc_compiler_init) INIT_STUB(orc_opcode_init) INIT_STUB(orc_c_init) INIT_STUB(orc_c64x_c_init)
INIT_STUB(orc_mmx_init) INIT_STUB(orc_sse_init) INIT_STUB(orc_avx_init) INIT_STUB(orc_powerpc_init) INIT_STUB(orc_arm_init)
INIT_STUB(orc_neon_init) INIT_STUB(orc_mips_init)

void orc_init (void)
__CPROVER_requires(g_lock == 0 && g_inits == 0)
__CPROVER_assigns(g_lock, g_inits)
__CPROVER_ensures(g_lock == 0)
/* either everything was initialised (first call) or nothing was touched (already initialised) */
__CPROVER_ensures(g_inits == 0 || g_inits >= 4);
void h_orc_init(void) { g_lock = 0; g_inits = 0; orc_init(); REACH(); }

/* once protocol, sequential reading: enter returns TRUE only for an initialised object and hands out its value without
 * keeping the lock; FALSE means "you initialise": lock held, object not initialised.  leave publishes value before flag
 * and releases the lock. */
static inline orc_bool orc_once_enter (OrcOnce *once, void **value)
__CPROVER_requires(__CPROVER_rw_ok(once, sizeof(*once)) && __CPROVER_w_ok(value, sizeof(void *)) && g_once_lock == 0)
__CPROVER_requires(once->inited == 0 || once->inited == 1)
__CPROVER_assigns(*value, g_once_lock)
__CPROVER_ensures(__CPROVER_return_value ? (g_once_lock == 0 && once->inited != 0 && *value == once->value)
                                          : (g_once_lock == 1 && once->inited == 0));
static inline void orc_once_leave (OrcOnce *once, void *value)
__CPROVER_requires(__CPROVER_rw_ok(once, sizeof(*once)) && g_once_lock == 1)
__CPROVER_assigns(once->value, once->inited, g_once_lock)
__CPROVER_ensures(g_once_lock == 0 && once->inited == 1 && once->value == value);
void h_once_enter(void) { OrcOnce *o = malloc(sizeof(*o)); __CPROVER_assume(o != NULL); void *v; g_once_lock = nondet_int(); orc_once_enter(o, &v); REACH(); }
void h_once_leave(void) { OrcOnce *o = malloc(sizeof(*o)); __CPROVER_assume(o != NULL); o->inited = 0; g_once_lock = nondet_int(); g_leaving_once = o; orc_once_leave(o, nondet_ptr()); REACH(); }
/* exactly-once under the contracts: a second caller after leave sees the value and does not initialise again */
void lemma_once(void) {
  OrcOnce *o = malloc(sizeof(*o)); __CPROVER_assume(o != NULL); o->inited = 0; o->value = NULL; g_once_lock = 0;
  void *v1, *v2; void *made = nondet_ptr();
  orc_bool r1 = orc_once_enter(o, &v1);
  __CPROVER_assert(!r1, "first caller is told to initialise");
  orc_once_leave(o, made);
  orc_bool r2 = orc_once_enter(o, &v2);
  __CPROVER_assert(r2 && v2 == made && g_once_lock == 0, "second caller sees the published value and holds no lock");
  REACH();
}
