/* C11: models of the compiler services an emitter calls (orc/orccompiler.c is not part of these units).
 * Results are arbitrary; instructions the real functions emit through target->load_constant are covered by the
 * units of the load_constant functions. */
#include "stubs/prelude.h"
#include <orc/orc.h>
#include <orc/orcinternal.h>
int orc_compiler_label_new (OrcCompiler *compiler) { return nondet_int (); }
int orc_compiler_get_constant (OrcCompiler *compiler, int size, int value) { return nondet_int (); }
int orc_compiler_get_constant_long (OrcCompiler *compiler, orc_uint32 a, orc_uint32 b, orc_uint32 c, orc_uint32 d) { return nondet_int (); }
int orc_compiler_try_get_constant_long (OrcCompiler *compiler, orc_uint32 a, orc_uint32 b, orc_uint32 c, orc_uint32 d) { return nondet_int (); }
int orc_compiler_get_temp_constant (OrcCompiler *compiler, int size, int value) { return nondet_int (); }
int orc_compiler_get_temp_reg (OrcCompiler *compiler) { return nondet_int (); }
int orc_compiler_get_constant_reg (OrcCompiler *compiler) { return nondet_int (); }
void orc_compiler_error (OrcCompiler *compiler, const char *fmt, ...) { }
void orc_compiler_append_code (OrcCompiler *p, const char *fmt, ...) { }
void *orc_realloc (void *ptr, size_t size) { return ptr; }
#ifdef ISA_STUB_LOAD_CONSTANT
void ISA_STUB_LOAD_CONSTANT (OrcCompiler *compiler, int reg, int size, orc_uint64 value) { }
#endif
