/* C11: abstraction of the emit layer (orc/orcx86insn.c: orc_x86_emit_cpuinsn_*, orc_vex_emit_*) used by the
 * emitter units: each call appends exactly one instruction record carrying (opcode index, prefix); the abstraction
 * keeps only the OR of the ISA classes those records need (ghost g_need).  That the REAL functions append exactly one
 * record with these two fields and change no earlier record is proved by the "emit:<function>" units against
 * orc/orcx86insn.c (contracts/isa_emit.c).  Compiled per target with ISA_FORM_XMM / ISA_FORM_MM / ISA_FORM_AVX. */
#include "contracts/isa_common.h"

unsigned g_need;

#ifdef CC_GHOST
/* C10: the same abstraction additionally interprets the handful of instructions that the calling-convention contracts
 * talk about (contracts/callconv.c): push/pop on a ghost stack, and the MXCSR save / modify / restore dataflow through
 * executor slots and one general-purpose register, over the abstract values CC_UNKNOWN / CC_ORIG (the caller's MXCSR)
 * / CC_MOD (caller's value | 0x8040). */
#include "contracts/callconv.h"
int g_sp, g_cc_bad, g_stack[CC_STACK], g_szstack[CC_STACK];
int g_mx, g_nslot, g_slot_off[CC_SLOTS], g_slot_val[CC_SLOTS], g_reg, g_reg_val;
static int slot_get (int off) { for (int i = 0; i < CC_SLOTS; i++) if (i < g_nslot && g_slot_off[i] == off) return g_slot_val[i]; return CC_UNKNOWN; }
static void slot_set (int off, int v)
{
  for (int i = 0; i < CC_SLOTS; i++) if (i < g_nslot && g_slot_off[i] == off) { g_slot_val[i] = v; return; }
  if (g_nslot < CC_SLOTS) { g_slot_off[g_nslot] = off; g_slot_val[g_nslot] = v; g_nslot++; } else g_cc_bad |= CC_BAD_CAPACITY;
}
static void cc_size (int index, int size, int src, int dest)
{
  if (index == ORC_X86_push) {
    if (g_sp >= 0 && g_sp < CC_STACK) { g_stack[g_sp] = src; g_szstack[g_sp] = size; } else g_cc_bad |= CC_BAD_CAPACITY;
    g_sp++;
  } else if (index == ORC_X86_pop) {
    if (g_sp <= 0 || g_sp > CC_STACK) g_cc_bad |= CC_BAD_UNDERFLOW;
    else if (g_stack[g_sp - 1] != dest || g_szstack[g_sp - 1] != size) g_cc_bad |= CC_BAD_MISMATCH;
    g_sp--;
  } else if (dest == g_reg) g_reg_val = CC_UNKNOWN;
}
static void cc_mem_load (int index, int offset, int dest)   /* [base+offset] -> register or MXCSR, or MXCSR -> [base+offset] */
{
  if (index == ORC_X86_stmxcsr) slot_set (offset, g_mx);
  else if (index == ORC_X86_ldmxcsr) g_mx = slot_get (offset);
  else if (index == ORC_X86_movl_rm_r || index == ORC_X86_mov_rm_r) { g_reg = dest; g_reg_val = slot_get (offset); }
  else if (dest == g_reg) g_reg_val = CC_UNKNOWN;
}
static void cc_mem_store (int index, int src, int offset)
{
  if (index == ORC_X86_movl_r_rm || index == ORC_X86_mov_r_rm) slot_set (offset, src == g_reg ? g_reg_val : CC_UNKNOWN);
  else slot_set (offset, CC_UNKNOWN);
}
static void cc_imm_reg (int index, int imm, int dest)
{
  if (dest != g_reg) return;
  if (index == ORC_X86_or_imm32_rm && imm == 0x8040 && g_reg_val == CC_ORIG) g_reg_val = CC_MOD;
  else if (index != ORC_X86_cmp_imm32_rm && index != ORC_X86_cmp_imm8_rm && index != ORC_X86_test_imm) g_reg_val = CC_UNKNOWN;
}
#else
#define cc_size(index, size, src, dest) ((void)0)
#define cc_mem_load(index, offset, dest) ((void)0)
#define cc_mem_store(index, src, offset) ((void)0)
#define cc_imm_reg(index, imm, dest) ((void)0)
#endif

#ifdef SK_GHOST
/* C10 skeleton contract (contracts/skeleton.c): for every label, the phase in which it is placed and the phase in which
 * the first branch to it is emitted */
#include "contracts/skeleton.h"
int g_phase, g_label_phase[SK_LABELS], g_branch_phase[SK_LABELS];
static void sk_label (int label) { if (label >= 0 && label < SK_LABELS) g_label_phase[label] = g_phase; }
static void sk_branch (int label) { if (label >= 0 && label < SK_LABELS && g_branch_phase[label] < 0) g_branch_phase[label] = g_phase; }
#else
#define sk_label(label) ((void)0)
#define sk_branch(label) ((void)0)
#endif

#define REC(index, prefix) (g_need |= isa_need_ip ((index), (prefix)))

void orc_x86_emit_cpuinsn_size (OrcCompiler *p, int index, int size, int src, int dest) { REC (index, 0); cc_size (index, size, src, dest); }
void orc_x86_emit_cpuinsn_imm (OrcCompiler *p, int index, int imm, int src, int dest) { REC (index, 0); }
void orc_x86_emit_cpuinsn_load_memoffset (OrcCompiler *p, int index, int size, int imm, int offset, int src, int dest) { REC (index, 0); cc_mem_load (index, offset, dest); }
void orc_x86_emit_cpuinsn_store_memoffset (OrcCompiler *p, int index, int size, int imm, int offset, int src, int dest) { REC (index, 0); }
void orc_x86_emit_cpuinsn_load_memindex (OrcCompiler *p, int index, int size, int imm, int offset, int src, int src_index, int shift, int dest) { REC (index, 0); }
void orc_x86_emit_cpuinsn_imm_reg (OrcCompiler *p, int index, int size, int imm, int dest) { REC (index, 0); cc_imm_reg (index, imm, dest); }
void orc_x86_emit_cpuinsn_imm_memoffset (OrcCompiler *p, int index, int size, int imm, int offset, int dest) { REC (index, 0); }
void orc_x86_emit_cpuinsn_reg_memoffset (OrcCompiler *p, int index, int src, int offset, int dest) { REC (index, 0); cc_mem_store (index, src, offset); }
void orc_x86_emit_cpuinsn_reg_memoffset_8 (OrcCompiler *p, int index, int src, int offset, int dest) { REC (index, 0); cc_mem_store (index, src, offset); }
void orc_x86_emit_cpuinsn_reg_memoffset_s (OrcCompiler *p, int index, int size, int src, int offset, int dest) { REC (index, 0); cc_mem_store (index, src, offset); }
void orc_x86_emit_cpuinsn_memoffset_reg (OrcCompiler *p, int index, int size, int offset, int src, int dest) { REC (index, 0); cc_mem_load (index, offset, dest); }
void orc_x86_emit_cpuinsn_branch (OrcCompiler *p, int index, int label) { REC (index, 0); sk_branch (label); }
void orc_x86_emit_cpuinsn_align (OrcCompiler *p, int index, int align_shift) { REC (index, 0); }
void orc_x86_emit_cpuinsn_label (OrcCompiler *p, int index, int label) { REC (index, 0); sk_label (label); }
void orc_x86_emit_cpuinsn_none (OrcCompiler *p, int index) { REC (index, 0); }
void orc_x86_emit_cpuinsn_memoffset (OrcCompiler *p, int index, int size, int offset, int srcdest) { REC (index, 0); }
void orc_vex_emit_cpuinsn_none (OrcCompiler *p, const int index, const OrcX86OpcodePrefix prefix) { REC (index, prefix); }
void orc_vex_emit_cpuinsn_size (OrcCompiler *const p, const int index, const int size, const int src0, const int src1, const int dest, const OrcX86OpcodePrefix prefix) { REC (index, prefix); }
void orc_vex_emit_cpuinsn_imm (OrcCompiler *const p, const int index, const int imm, const int src0, const int src1, const int dest, const OrcX86OpcodePrefix prefix) { REC (index, prefix); }
void orc_vex_emit_cpuinsn_load_memoffset (OrcCompiler *const p, const int index, const int size, const int imm, const int offset, const int src0, const int src1, const int dest, const OrcX86OpcodePrefix prefix) { REC (index, prefix); cc_mem_load (index, offset, dest); }
void orc_vex_emit_cpuinsn_store_memoffset (OrcCompiler *const p, const int index, const int size, const int imm, const int offset, const int src, const int dest, const OrcX86OpcodePrefix prefix) { REC (index, prefix); }
void orc_vex_emit_cpuinsn_load_memindex (OrcCompiler *const p, const int index, const int size, const int imm, const int offset, const int src, const int src_index, const int shift, int dest, const OrcX86OpcodePrefix prefix) { REC (index, prefix); }
void orc_vex_emit_blend_size (OrcCompiler *const p, const int index, const int size, const int src0, const int src1, const int src2, const int dest, const OrcX86OpcodePrefix prefix) { REC (index, prefix); }
