/* C11: abstraction of the emit layer (orc/orcx86insn.c: orc_x86_emit_cpuinsn_*, orc_vex_emit_*) used by the
 * emitter units: each call appends exactly one instruction record carrying (opcode index, prefix); the abstraction
 * keeps only the OR of the ISA classes those records need (ghost g_need).  That the REAL functions append exactly one
 * record with these two fields and change no earlier record is proved by the "emit:<function>" units against
 * orc/orcx86insn.c (contracts/isa_emit.c).  Compiled per target with ISA_FORM_XMM / ISA_FORM_MM / ISA_FORM_AVX. */
#include "contracts/isa_common.h"

unsigned g_need;

#define REC(index, prefix) (g_need |= isa_need_ip ((index), (prefix)))

void orc_x86_emit_cpuinsn_size (OrcCompiler *p, int index, int size, int src, int dest) { REC (index, 0); }
void orc_x86_emit_cpuinsn_imm (OrcCompiler *p, int index, int imm, int src, int dest) { REC (index, 0); }
void orc_x86_emit_cpuinsn_load_memoffset (OrcCompiler *p, int index, int size, int imm, int offset, int src, int dest) { REC (index, 0); }
void orc_x86_emit_cpuinsn_store_memoffset (OrcCompiler *p, int index, int size, int imm, int offset, int src, int dest) { REC (index, 0); }
void orc_x86_emit_cpuinsn_load_memindex (OrcCompiler *p, int index, int size, int imm, int offset, int src, int src_index, int shift, int dest) { REC (index, 0); }
void orc_x86_emit_cpuinsn_imm_reg (OrcCompiler *p, int index, int size, int imm, int dest) { REC (index, 0); }
void orc_x86_emit_cpuinsn_imm_memoffset (OrcCompiler *p, int index, int size, int imm, int offset, int dest) { REC (index, 0); }
void orc_x86_emit_cpuinsn_reg_memoffset (OrcCompiler *p, int index, int src, int offset, int dest) { REC (index, 0); }
void orc_x86_emit_cpuinsn_reg_memoffset_8 (OrcCompiler *p, int index, int src, int offset, int dest) { REC (index, 0); }
void orc_x86_emit_cpuinsn_reg_memoffset_s (OrcCompiler *p, int index, int size, int src, int offset, int dest) { REC (index, 0); }
void orc_x86_emit_cpuinsn_memoffset_reg (OrcCompiler *p, int index, int size, int offset, int src, int dest) { REC (index, 0); }
void orc_x86_emit_cpuinsn_branch (OrcCompiler *p, int index, int label) { REC (index, 0); }
void orc_x86_emit_cpuinsn_align (OrcCompiler *p, int index, int align_shift) { REC (index, 0); }
void orc_x86_emit_cpuinsn_label (OrcCompiler *p, int index, int label) { REC (index, 0); }
void orc_x86_emit_cpuinsn_none (OrcCompiler *p, int index) { REC (index, 0); }
void orc_x86_emit_cpuinsn_memoffset (OrcCompiler *p, int index, int size, int offset, int srcdest) { REC (index, 0); }
void orc_vex_emit_cpuinsn_none (OrcCompiler *p, const int index, const OrcX86OpcodePrefix prefix) { REC (index, prefix); }
void orc_vex_emit_cpuinsn_size (OrcCompiler *const p, const int index, const int size, const int src0, const int src1, const int dest, const OrcX86OpcodePrefix prefix) { REC (index, prefix); }
void orc_vex_emit_cpuinsn_imm (OrcCompiler *const p, const int index, const int imm, const int src0, const int src1, const int dest, const OrcX86OpcodePrefix prefix) { REC (index, prefix); }
void orc_vex_emit_cpuinsn_load_memoffset (OrcCompiler *const p, const int index, const int size, const int imm, const int offset, const int src0, const int src1, const int dest, const OrcX86OpcodePrefix prefix) { REC (index, prefix); }
void orc_vex_emit_cpuinsn_store_memoffset (OrcCompiler *const p, const int index, const int size, const int imm, const int offset, const int src, const int dest, const OrcX86OpcodePrefix prefix) { REC (index, prefix); }
void orc_vex_emit_cpuinsn_load_memindex (OrcCompiler *const p, const int index, const int size, const int imm, const int offset, const int src, const int src_index, const int shift, int dest, const OrcX86OpcodePrefix prefix) { REC (index, prefix); }
void orc_vex_emit_blend_size (OrcCompiler *const p, const int index, const int size, const int src0, const int src1, const int src2, const int dest, const OrcX86OpcodePrefix prefix) { REC (index, prefix); }
