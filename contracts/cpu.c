/* Wrapper TU for orc/orccpu-x86.c and the three x86 target definitions (property C19). */
#include "stubs/prelude.h"
#include "/repo/orc/orccpu-x86.c"
#include "/repo/orc/orcprogram-mmx.c"
#include "/repo/orc/orcprogram-sse.c"
#include "/repo/orc/orcprogram-avx.c"
#include "stubs/log_stub.c"

/* ---------------------------------------------------------------- assumed hardware model (ghost CPUID registers) */
unsigned g_level;                 /* leaf 0 eax: highest basic leaf */
unsigned g_vendor;                /* leaf 0 ecx */
unsigned g_l1_ecx, g_l1_edx;      /* leaf 1 */
unsigned g_l7_ebx;                /* leaf 7 subleaf 0 */
int g_xcr0_ymm;                   /* XCR0[2:1] == 11b */
int g_masks;                      /* ORC_CODE contains feature masks ("-sse2", ...) */

static void get_cpuid (orc_uint32 op, orc_uint32 *a, orc_uint32 *b, orc_uint32 *c, orc_uint32 *d)
__CPROVER_requires(__CPROVER_w_ok(a, 4) && __CPROVER_w_ok(b, 4) && __CPROVER_w_ok(c, 4) && __CPROVER_w_ok(d, 4))
__CPROVER_assigns(*a, *b, *c, *d)
__CPROVER_ensures(op == 0 ==> (*a == g_level && *c == g_vendor))
__CPROVER_ensures(op == 1 ==> (*c == g_l1_ecx && *d == g_l1_edx))
__CPROVER_ensures(op == 7 ==> (*b == g_l7_ebx));

static void get_cpuid_ecx (orc_uint32 op, orc_uint32 init_ecx, orc_uint32 *a, orc_uint32 *b, orc_uint32 *c, orc_uint32 *d)
__CPROVER_requires(__CPROVER_w_ok(a, 4) && __CPROVER_w_ok(b, 4) && __CPROVER_w_ok(c, 4) && __CPROVER_w_ok(d, 4))
__CPROVER_assigns(*a, *b, *c, *d);

static orc_bool check_xcr0_ymm (void)
__CPROVER_assigns()
__CPROVER_ensures(__CPROVER_return_value == g_xcr0_ymm);

static void mk_cpu(void) {   /* every CPU and OS at once */
  g_level = nondet_uint(); g_vendor = nondet_uint(); g_l1_ecx = nondet_uint(); g_l1_edx = nondet_uint();
  g_l7_ebx = nondet_uint(); g_xcr0_ymm = nondet_bool(); g_masks = nondet_bool();
}
/* ORC_CODE feature masks: absent (g_masks == 0) or arbitrary */
int orc_compiler_flag_check (const char *flag) { return g_masks ? (int)nondet_bool() : 0; }
int _orc_compiler_flag_debug;
int _orc_cpu_family, _orc_cpu_model, _orc_cpu_stepping;
int _orc_data_cache_size_level1, _orc_data_cache_size_level2, _orc_data_cache_size_level3;
const char *_orc_cpu_name;

/* ---------------------------------------------------------------- spec: Intel SDM vol. 2 CPUID */
#define BIT(x, n) (((x) >> (n)) & 1u)
#define SPEC_OSXSAVE (BIT(g_l1_ecx, 26) && BIT(g_l1_ecx, 27) && g_xcr0_ymm)
#define SPEC_SSE ( (BIT(g_l1_edx, 26) ? ORC_TARGET_SSE_SSE2 : 0) | (BIT(g_l1_ecx, 0) ? ORC_TARGET_SSE_SSE3 : 0) | \
                   (BIT(g_l1_ecx, 9) ? ORC_TARGET_SSE_SSSE3 : 0) | (BIT(g_l1_ecx, 19) ? ORC_TARGET_SSE_SSE4_1 : 0) | \
                   (BIT(g_l1_ecx, 20) ? ORC_TARGET_SSE_SSE4_2 : 0) | \
                   ((SPEC_OSXSAVE && BIT(g_l1_ecx, 28)) ? ORC_TARGET_AVX_AVX : 0) | \
                   ((SPEC_OSXSAVE && BIT(g_l1_ecx, 28) && BIT(g_l7_ebx, 5)) ? ORC_TARGET_AVX_AVX2 : 0) )
#define SPEC_MMX ( (BIT(g_l1_edx, 23) ? ORC_TARGET_MMX_MMX : 0) | (BIT(g_l1_edx, 26) ? ORC_TARGET_MMX_MMXEXT : 0) | \
                   (BIT(g_l1_ecx, 9) ? ORC_TARGET_MMX_SSSE3 : 0) | (BIT(g_l1_ecx, 19) ? ORC_TARGET_MMX_SSE4_1 : 0) )

/* each flag bit <=> its CPUID bit (AVX additionally needs OS support); flags are only ever added */
static void orc_x86_cpuid_handle_standard_flags (void)
__CPROVER_assigns(orc_x86_sse_flags, orc_x86_mmx_flags)
__CPROVER_ensures(orc_x86_sse_flags == (__CPROVER_old(orc_x86_sse_flags) | SPEC_SSE))
__CPROVER_ensures(orc_x86_mmx_flags == (__CPROVER_old(orc_x86_mmx_flags) | SPEC_MMX));
void h_standard_flags(void) {
  mk_cpu(); orc_x86_sse_flags = nondet_int(); orc_x86_mmx_flags = nondet_int();
  orc_x86_cpuid_handle_standard_flags(); REACH();
}

/* detection from a clean state: never a flag without its CPUID bit; exactly the spec when no mask is set and leaf 1
 * exists; the vendor-specific additions (SSE4A, SSE5, 3DNow!, MMXEXT on AMD) lie outside the bits judged here */
#define JUDGED_SSE (ORC_TARGET_SSE_SSE2 | ORC_TARGET_SSE_SSE3 | ORC_TARGET_SSE_SSSE3 | ORC_TARGET_SSE_SSE4_1 | ORC_TARGET_SSE_SSE4_2 | ORC_TARGET_AVX_AVX | ORC_TARGET_AVX_AVX2)
#define JUDGED_MMX (ORC_TARGET_MMX_MMX | ORC_TARGET_MMX_SSSE3 | ORC_TARGET_MMX_SSE4_1)
static void orc_x86_detect_cpuid (void)
__CPROVER_requires(orc_x86_sse_flags == 0 && orc_x86_mmx_flags == 0)
__CPROVER_assigns(orc_x86_sse_flags, orc_x86_mmx_flags, orc_x86_vendor, orc_x86_microarchitecture, _orc_cpu_family, _orc_cpu_model,
                  _orc_cpu_stepping, _orc_data_cache_size_level1, _orc_data_cache_size_level2, _orc_data_cache_size_level3, _orc_cpu_name,
                  __CPROVER_object_whole(orc_x86_processor_string))
__CPROVER_ensures(((orc_x86_sse_flags & JUDGED_SSE) & ~(g_level >= 1 ? SPEC_SSE : 0)) == 0)
__CPROVER_ensures(((orc_x86_mmx_flags & JUDGED_MMX) & ~(g_level >= 1 ? SPEC_MMX : 0)) == 0)
/* (exact equality is proved for orc_x86_cpuid_handle_standard_flags; here only "never a flag without its bit", because the
 * function-local first-call guard 'static int inited' is nondeterministic under contract instrumentation) */;
void h_detect_cpuid(void) { mk_cpu(); orc_x86_detect_cpuid(); REACH(); }

/* a backend is executable exactly when the CPU/OS provide its base instruction set */
static int mmx_is_executable (void)
__CPROVER_assigns(orc_x86_sse_flags, orc_x86_mmx_flags)
__CPROVER_ensures((__CPROVER_return_value != 0) == ((orc_x86_mmx_flags & ORC_TARGET_MMX_MMX) != 0));
static int sse_is_executable (void)
__CPROVER_assigns(orc_x86_sse_flags, orc_x86_mmx_flags)
__CPROVER_ensures((__CPROVER_return_value != 0) == ((orc_x86_sse_flags & ORC_TARGET_SSE_SSE2) != 0));
static int avx_is_executable (void)
__CPROVER_assigns(orc_x86_sse_flags, orc_x86_mmx_flags)
__CPROVER_ensures((__CPROVER_return_value != 0) == ((orc_x86_sse_flags & ORC_TARGET_AVX_AVX) != 0 && (orc_x86_sse_flags & ORC_TARGET_AVX_AVX2) != 0));

/* in the is_executable units detection is replaced by this abstraction of its contract (flags become arbitrary) */
unsigned int orc_sse_get_cpu_flags (void)
__CPROVER_assigns(orc_x86_sse_flags, orc_x86_mmx_flags)
__CPROVER_ensures(__CPROVER_return_value == (unsigned)orc_x86_sse_flags);
unsigned int orc_mmx_get_cpu_flags (void)
__CPROVER_assigns(orc_x86_sse_flags, orc_x86_mmx_flags)
__CPROVER_ensures(__CPROVER_return_value == (unsigned)orc_x86_mmx_flags);
void h_mmx_exec(void) { mk_cpu(); orc_x86_sse_flags = nondet_int(); orc_x86_mmx_flags = nondet_int(); mmx_is_executable(); REACH(); }
void h_sse_exec(void) { mk_cpu(); orc_x86_sse_flags = nondet_int(); orc_x86_mmx_flags = nondet_int(); sse_is_executable(); REACH(); }
void h_avx_exec(void) { mk_cpu(); orc_x86_sse_flags = nondet_int(); orc_x86_mmx_flags = nondet_int(); avx_is_executable(); REACH(); }

/* default flags never claim a feature that was not detected */
static unsigned int sse_get_default_flags (void)
__CPROVER_assigns(orc_x86_sse_flags, orc_x86_mmx_flags)
__CPROVER_ensures((__CPROVER_return_value & ~(unsigned)(orc_x86_sse_flags | ORC_TARGET_SSE_64BIT | ORC_TARGET_SSE_FRAME_POINTER)) == 0);
static unsigned int avx_get_default_flags (void)
__CPROVER_assigns(orc_x86_sse_flags, orc_x86_mmx_flags)
__CPROVER_ensures((__CPROVER_return_value & ~(unsigned)(orc_x86_sse_flags | ORC_TARGET_SSE_64BIT | ORC_TARGET_SSE_FRAME_POINTER)) == 0);
static unsigned int mmx_get_default_flags (void)
__CPROVER_assigns(orc_x86_sse_flags, orc_x86_mmx_flags)
__CPROVER_ensures((__CPROVER_return_value & ~(unsigned)(orc_x86_mmx_flags | ORC_TARGET_MMX_64BIT | ORC_TARGET_MMX_FRAME_POINTER)) == 0);
void h_sse_flags(void) { mk_cpu(); orc_x86_sse_flags = nondet_int(); orc_x86_mmx_flags = nondet_int(); _orc_compiler_flag_debug = nondet_int(); sse_get_default_flags(); REACH(); }
void h_avx_flags(void) { mk_cpu(); orc_x86_sse_flags = nondet_int(); orc_x86_mmx_flags = nondet_int(); _orc_compiler_flag_debug = nondet_int(); avx_get_default_flags(); REACH(); }
void h_mmx_flags(void) { mk_cpu(); orc_x86_sse_flags = nondet_int(); orc_x86_mmx_flags = nondet_int(); _orc_compiler_flag_debug = nondet_int(); mmx_get_default_flags(); REACH(); }
