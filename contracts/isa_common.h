/* C11: ISA need/have functions shared by the emitter contracts and the emit-layer abstraction. */
#ifndef VERIF_ISA_COMMON_H
#define VERIF_ISA_COMMON_H
#include "stubs/prelude.h"
#include <orc/orc.h>
#include <orc/orcinternal.h>
#include <orc/orcx86.h>
#include <orc/orcx86insn.h>
#include <orc/orcsse.h>
#include <orc/orcmmx.h>
#include <orc/orcavx.h>
#include "out/gen/c11/isa_table.h"

/* what an instruction record with this opcode index and encoding prefix needs */
static unsigned isa_need_ip(int index, int prefix)
{
#if defined(ISA_FORM_AVX)
  if (prefix == ORC_X86_AVX_VEX128_PREFIX) return isa_need_v128 (index);
  if (prefix == ORC_X86_AVX_VEX256_PREFIX) return isa_need_v256 (index);
  return isa_need_xmm (index);
#elif defined(ISA_FORM_MM)
  return isa_need_mm (index);
#else
  return isa_need_xmm (index);
#endif
}

/* what the target flags grant */
static unsigned isa_have(unsigned f)
{
  unsigned h = 0;
#if defined(ISA_FORM_MM)
  if (f & ORC_TARGET_MMX_MMX) h |= NEED_MMX;
  if (f & ORC_TARGET_MMX_MMXEXT) h |= NEED_MMXEXT;
  if (f & ORC_TARGET_MMX_SSSE3) h |= NEED_SSSE3 | NEED_SSE2;
  if (f & ORC_TARGET_MMX_SSE4_1) h |= NEED_SSE41 | NEED_SSE2;
  if (f & ORC_TARGET_MMX_SSE4_2) h |= NEED_SSE42 | NEED_SSE2;
#else
  if (f & ORC_TARGET_SSE_SSE2) h |= NEED_SSE2 | NEED_SSE | NEED_MMX;
  if (f & ORC_TARGET_SSE_SSE3) h |= NEED_SSE3;
  if (f & ORC_TARGET_SSE_SSSE3) h |= NEED_SSSE3;
  if (f & ORC_TARGET_SSE_SSE4_1) h |= NEED_SSE41;
  if (f & ORC_TARGET_SSE_SSE4_2) h |= NEED_SSE42;
#if defined(ISA_FORM_AVX)
  if (f & ORC_TARGET_AVX_AVX) h |= NEED_AVX | NEED_SSE | NEED_MMX;
  if (f & ORC_TARGET_AVX_AVX2) h |= NEED_AVX2;
#endif
#endif
  return h;
}
#endif
