/* C14, handlers that dfcc could not bring within reach (array-theory out of memory with the API contracts in replace
 * mode): .source, .dest, .n.  Contract in assume(requires) / assert(ensures) form around the REAL handler (same
 * mechanically extracted copy of orc/orcparse.c as contracts/parse.c):
 *   requires: a parser with a live program, a line as orc_line_init + orc_line_parse_tokens leave it - n_tokens in
 *             [0, ORC_LINE_MAX_TOKENS], tokens[0..n_tokens) NUL-terminated strings, tokens[n_tokens..) NULL (the token
 *             layer's contract, enforced in contracts/parse.c);
 *   ensures:  returns 0 or 1; every API call gets a live program, a readable string and a variable index in range;
 *             every string function gets a readable string; no access outside the token array (standard checks).
 * The program API is modelled by stubs that check their arguments and answer arbitrarily within their contracts
 * (contracts/program_api.h, enforced in C05). */
#include "stubs/prelude.h"
#include "/verif/out/gen/orcparse_nv.c"
#include "stubs/log_stub.c"

#define STR_ARG(s, what) __CPROVER_assert(__CPROVER_r_ok((s), 1), what)
#define PROG_ARG(p) __CPROVER_assert(__CPROVER_rw_ok((p), sizeof(OrcProgram)), "API call on a live program")
#define VAR_ARG(v) __CPROVER_assert((v) >= 0 && (v) < ORC_N_VARIABLES, "variable index in range")

int strcmp (const char *a, const char *b) { STR_ARG(a, "strcmp argument is a readable string"); STR_ARG(b, "strcmp argument is a readable string"); return nondet_int(); }
long strtol (const char *s, char **end, int base) { STR_ARG(s, "strtol argument is a readable string"); if (end) *end = (char *)s; return nondet_long(); }
int vasprintf (char **strp, const char *fmt, __builtin_va_list ap) {
  if (nondet_bool()) return -1;
  char *r = malloc(8); __CPROVER_assume(r != NULL); r[7] = 0; *strp = r; return 7;
}
char *strdup (const char *s) { STR_ARG(s, "strdup argument is a readable string"); char *r = malloc(8); __CPROVER_assume(r != NULL); r[7] = 0; return r; }
void orc_vector_append (OrcVector *vector, void *item) { __CPROVER_assert(__CPROVER_rw_ok(vector, sizeof(*vector)), "vector is live"); }

static int any_var (void) { int v = nondet_int(); __CPROVER_assume(v >= 0 && v < ORC_N_VARIABLES); return v; }
int orc_program_add_source (OrcProgram *p, int size, const char *name) { PROG_ARG(p); STR_ARG(name, "variable name is a readable string"); return any_var(); }
int orc_program_add_destination (OrcProgram *p, int size, const char *name) { PROG_ARG(p); STR_ARG(name, "variable name is a readable string"); return any_var(); }
void orc_program_set_var_alignment (OrcProgram *p, int var, int alignment) { PROG_ARG(p); VAR_ARG(var); }
void orc_program_set_type_name (OrcProgram *p, int var, const char *type_name) { PROG_ARG(p); VAR_ARG(var); STR_ARG(type_name, "type name is a readable string"); }
void orc_program_set_n_multiple (OrcProgram *p, int n) { PROG_ARG(p); }
void orc_program_set_n_minimum (OrcProgram *p, int n) { PROG_ARG(p); }
void orc_program_set_n_maximum (OrcProgram *p, int n) { PROG_ARG(p); }
void orc_program_set_constant_n (OrcProgram *p, int n) { PROG_ARG(p); }

static char g_tok[ORC_LINE_MAX_TOKENS][4];
static OrcParser *g_parser;
static OrcLine *mk_line (void)
{
  OrcParser *parser = malloc (sizeof (OrcParser)); OrcProgram *prog = malloc (sizeof (OrcProgram)); OrcLine *line = malloc (sizeof (OrcLine));
  __CPROVER_assume (parser != NULL && prog != NULL && line != NULL);
  parser->program = prog; parser->error_program = nondet_bool () ? prog : NULL;
  g_parser = parser;
  int n = nondet_int (); __CPROVER_assume (n >= 0 && n <= ORC_LINE_MAX_TOKENS);
  line->n_tokens = n;
  for (int k = 0; k < ORC_LINE_MAX_TOKENS; k++) {
    if (k < n) { g_tok[k][3] = 0; line->tokens[k] = g_tok[k]; } else line->tokens[k] = NULL;
  }
  return line;
}
#define HANDLER_HARNESS(h, fn) void h (void) { OrcLine *line = mk_line (); int r = fn (g_parser, line); \
  __CPROVER_assert (r == 0 || r == 1, "postcondition: handler answers 0 or 1"); REACH (); }
HANDLER_HARNESS (hp_handle_source, orc_parse_handle_source)
HANDLER_HARNESS (hp_handle_dest, orc_parse_handle_dest)
HANDLER_HARNESS (hp_handle_dotn, orc_parse_handle_dotn)

/* ---------------------------------------------------------------- opcode lines */
double nondet_double (void);
double strtod (const char *s, char **end) { STR_ARG(s, "strtod argument is a readable string"); if (end) *end = (char *)s + ((s[0] != 0 && nondet_bool ()) ? 1 : 0); return nondet_double (); }
int snprintf (char *buf, size_t size, const char *fmt, ...) {
  __CPROVER_assert(__CPROVER_w_ok(buf, size), "snprintf buffer");
  if (size > 0) { size_t k = nondet_ulong(); __CPROVER_assume(k < size); buf[k] = 0; }
  return nondet_int();
}
static char g_vname[4];
int orc_program_add_constant_str (OrcProgram *p, int size, const char *value, const char *name) {
  PROG_ARG(p); STR_ARG(value, "constant text is a readable string"); STR_ARG(name, "constant name is a readable string");
  /* -1 bad number, 0 no room, else one of the constant slots (concrete alternatives: a symbolic index into OrcProgram.vars
   * makes the formula explode, tool fact 13) */
  switch (nondet_int () & 15) {
    case 0: return -1; case 1: return 0;
    case 2: return ORC_VAR_C1; case 3: return ORC_VAR_C1 + 1; case 4: return ORC_VAR_C1 + 2; case 5: return ORC_VAR_C1 + 3;
    case 6: return ORC_VAR_C1 + 4; case 7: return ORC_VAR_C1 + 5; case 8: return ORC_VAR_C1 + 6; default: return ORC_VAR_C1 + 7;
  }
}
int orc_program_append_str_n (OrcProgram *p, const char *name, unsigned int flags, int argc, const char **argv) {
  PROG_ARG(p); STR_ARG(name, "opcode name is a readable string");
  __CPROVER_assert(argc >= 0 && argc <= 6, "operand count within the argument array");
  for (int k = 0; k < 6; k++) if (k < argc) __CPROVER_assert(argv[k] == NULL || __CPROVER_r_ok(argv[k], 1), "operand names are NULL or readable strings");
  int r = nondet_int (); __CPROVER_assume (r >= -1 && r <= argc); return r;               /* 0 ok, -1 refused, else the bad operand's position */
}
void hp_handle_opcode (void)
{
  OrcLine *line = mk_line ();
  __CPROVER_assume (line->n_tokens >= 1);                 /* the main loop dispatches only lines that have tokens */
  if (nondet_bool ()) g_parser->program = NULL;           /* opcode before any .function */
  else {
    g_vname[3] = 0;
    g_parser->program->vars[0].name = nondet_bool () ? NULL : g_vname;
    g_parser->program->vars[ORC_VAR_C1].name = nondet_bool () ? NULL : g_vname; g_parser->program->vars[ORC_VAR_C1 + 1].name = nondet_bool () ? NULL : g_vname;
    g_parser->program->vars[ORC_VAR_C1 + 2].name = nondet_bool () ? NULL : g_vname; g_parser->program->vars[ORC_VAR_C1 + 3].name = nondet_bool () ? NULL : g_vname;
    g_parser->program->vars[ORC_VAR_C1 + 4].name = nondet_bool () ? NULL : g_vname; g_parser->program->vars[ORC_VAR_C1 + 5].name = nondet_bool () ? NULL : g_vname;
    g_parser->program->vars[ORC_VAR_C1 + 6].name = nondet_bool () ? NULL : g_vname; g_parser->program->vars[ORC_VAR_C1 + 7].name = nondet_bool () ? NULL : g_vname;
  }
  OrcOpcodeSet *set = malloc (sizeof (OrcOpcodeSet)); OrcStaticOpcode *ops = malloc (3 * sizeof (OrcStaticOpcode));
  __CPROVER_assume (set != NULL && ops != NULL);
  set->n_opcodes = nondet_int (); __CPROVER_assume (set->n_opcodes >= 0 && set->n_opcodes <= 3);
  for (int k = 0; k < 3; k++) ops[k].name[15] = 0;
  set->opcodes = ops; g_parser->opcode_set = set;
  int r = orc_parse_handle_opcode (g_parser, line);
  __CPROVER_assert (r == 0 || r == 1, "postcondition: handler answers 0 or 1");
  REACH ();
}
