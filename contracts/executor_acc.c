/* Wrapper TU for orc/orcexecutor.c (property C02, accumulator read-back): the value an application reads for an
 * accumulator, by index or by name, is the cell the opcode functions accumulate into (ex->accumulators[k], the cell
 * the emulate_acc* contracts and the compiled code write). */
#include "stubs/prelude.h"
#include "/repo/orc/orcutils.c"
#include "/repo/orc/orcexecutor.c"
#include "stubs/log_stub.c"

/* what the program's name lookup answers (its own contract -- first variable with that name, or -1 -- is C05's) */
int g_var;
int orc_program_find_var_by_name (OrcProgram *program, const char *name) { return g_var; }

int orc_executor_get_accumulator (OrcExecutor *ex, int var)
__CPROVER_requires(__CPROVER_r_ok(ex, sizeof(*ex)))
__CPROVER_requires(var >= ORC_VAR_A1 && var < ORC_VAR_A1 + 4)
__CPROVER_assigns()
__CPROVER_ensures(__CPROVER_return_value == ex->accumulators[var - ORC_VAR_A1]);

int orc_executor_get_accumulator_str (OrcExecutor *ex, const char *name)
__CPROVER_requires(__CPROVER_r_ok(ex, sizeof(*ex)))
__CPROVER_requires(g_var == -1 || (g_var >= ORC_VAR_A1 && g_var < ORC_VAR_A1 + 4))
__CPROVER_assigns()
__CPROVER_ensures(g_var >= 0 ==> __CPROVER_return_value == ex->accumulators[g_var - ORC_VAR_A1])
__CPROVER_ensures(g_var < 0 ==> __CPROVER_return_value == -1);

void h_get_accumulator(void) { OrcExecutor *ex = malloc(sizeof(*ex)); __CPROVER_assume(ex != NULL); int v; (void)orc_executor_get_accumulator(ex, v); REACH(); }
void h_get_accumulator_str(void) { OrcExecutor *ex = malloc(sizeof(*ex)); __CPROVER_assume(ex != NULL); g_var = nondet_int(); (void)orc_executor_get_accumulator_str(ex, "a1"); REACH(); }
