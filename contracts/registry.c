/* Wrapper TU for orc/orcopcode.c, orc/orcrule.c, orc/orctarget.c (properties C19, C20). */
#include "stubs/prelude.h"
#include "/repo/orc/orcutils.c"
#include "/repo/orc/orcopcode.c"
#include "/repo/orc/orcrule.c"
#include "/repo/orc/orctarget.c"
#include "stubs/log_stub.c"

void orc_opcode_sys_init (void) { }
/* ghost global lock (the registries are not locked today; present so that code which starts to lock stays analysable) */
int g_lock;
void orc_global_mutex_lock (void) { __CPROVER_assert(g_lock == 0, "global mutex not already held"); g_lock = 1; }
void orc_global_mutex_unlock (void) { __CPROVER_assert(g_lock == 1, "unlock of a held global mutex"); g_lock = 0; }
/* assumed libc model: writes at most n bytes, NUL-pads (the only use copies an 8-byte prefix) */
char *strncpy (char *d, const char *s, size_t n) {
  __CPROVER_assert(__CPROVER_w_ok(d, n) && __CPROVER_r_ok(s, 1), "strncpy arguments");
  if (n > 0) d[0] = nondet_char(); if (n > 1) d[1] = nondet_char(); if (n > 2) d[2] = nondet_char(); if (n > 3) d[3] = nondet_char();
  if (n > 4) d[4] = nondet_char(); if (n > 5) d[5] = nondet_char(); if (n > 6) d[6] = nondet_char(); if (n > 7) d[7] = nondet_char();
  return d;
}

/* ORC_BACKEND: unset, or a heap copy (as _orc_getenv returns: strdup) of an arbitrary string of < 8 characters */
char *g_env;   /* ghost: what the last _orc_getenv returned */
/* C19 "the documented environment override": DOC_ENVVAR is the variable name that doc/running.xml documents for target
 * selection (extracted by vlib/props/c19.py on every run) */
#ifndef DOC_ENVVAR
#define DOC_ENVVAR "ORC_TARGET"
#endif
int g_env_calls, g_doc_first, g_doc_set;
static int same_name (const char *a, const char *b) { for (int i = 0; i < 24; i++) { if (a[i] != b[i]) return 0; if (a[i] == 0) return 1; } return 0; }
char * _orc_getenv (const char *name) {
  int is_doc = same_name (name, DOC_ENVVAR);
  if (g_env_calls == 0) g_doc_first = is_doc;
  g_env_calls++;
  if (nondet_bool()) { g_env = NULL; return NULL; }
  if (is_doc) g_doc_set = 1;
  char *v = malloc(8); __CPROVER_assume(v != NULL); v[7] = 0; g_env = v; return v;
}

#ifndef NSETS
#define NSETS 3
#endif
#ifndef NOPS
#define NOPS 4
#endif

/* ---------------------------------------------------------------- spec functions (bounded strings: the name field is 16 bytes) */
static int spec_streq (const char *a, const char *b) {
  for (int k = 0; k < 17; k++) { if (a[k] != b[k]) return 0; if (a[k] == 0) return 1; }
  return 0;
}
static int spec_find (const OrcOpcodeSet *set, const char *name) {
  for (int j = 0; j < NOPS; j++) { if (j < set->n_opcodes && spec_streq(name, set->opcodes[j].name)) return j; }
  return -1;
}

/* ---------------------------------------------------------------- C20: lookup in one set = first exact match */
int orc_opcode_set_find_by_name (OrcOpcodeSet *opcode_set, const char *name)
__CPROVER_requires(__CPROVER_r_ok(opcode_set, sizeof(*opcode_set)) && opcode_set->n_opcodes >= 0 && opcode_set->n_opcodes <= NOPS)
__CPROVER_requires(__CPROVER_r_ok(opcode_set->opcodes, sizeof(OrcStaticOpcode) * NOPS) && __CPROVER_r_ok(name, 17))
__CPROVER_assigns()
__CPROVER_ensures(__CPROVER_return_value == spec_find(opcode_set, name));

/* built-in table first, then later sets: a name is resolved by the first set that has it */
OrcStaticOpcode * orc_opcode_find_by_name (const char *name)
__CPROVER_requires(n_opcode_sets >= 0 && n_opcode_sets <= NSETS && __CPROVER_r_ok(opcode_sets, sizeof(OrcOpcodeSet) * NSETS) && __CPROVER_r_ok(name, 17))
__CPROVER_assigns()
__CPROVER_ensures(
  (n_opcode_sets > 0 && spec_find(&opcode_sets[0], name) >= 0) ? __CPROVER_return_value == &opcode_sets[0].opcodes[spec_find(&opcode_sets[0], name)] :
  (n_opcode_sets > 1 && spec_find(&opcode_sets[1], name) >= 0) ? __CPROVER_return_value == &opcode_sets[1].opcodes[spec_find(&opcode_sets[1], name)] :
  (n_opcode_sets > 2 && spec_find(&opcode_sets[2], name) >= 0) ? __CPROVER_return_value == &opcode_sets[2].opcodes[spec_find(&opcode_sets[2], name)] :
  __CPROVER_return_value == NULL);

static OrcStaticOpcode g_tab[NSETS][NOPS + 1];
static void mk_sets(void) {
  int n = nondet_int(); __CPROVER_assume(n >= 0 && n <= NSETS);
  n_opcode_sets = n;
  opcode_sets = malloc(sizeof(OrcOpcodeSet) * NSETS); __CPROVER_assume(opcode_sets != NULL);
  for (int i = 0; i < NSETS; i++) {
    int m = nondet_int(); __CPROVER_assume(m >= 0 && m <= NOPS);
    opcode_sets[i].n_opcodes = m; opcode_sets[i].opcodes = g_tab[i]; opcode_sets[i].opcode_major = i;
    for (int j = 0; j <= NOPS; j++) {
      for (int c = 0; c < 16; c++) g_tab[i][j].name[c] = nondet_char();
      g_tab[i][j].name[15] = 0;
      /* table shape: entries [0,m) have non-empty names, entry m is the terminator */
      if (j < m) __CPROVER_assume(g_tab[i][j].name[0] != 0); else if (j == m) g_tab[i][j].name[0] = 0;
    }
  }
}
static char *mk_name(void) { char *s = malloc(17); __CPROVER_assume(s != NULL); s[16] = 0; return s; }

void h_set_find_by_name(void) { mk_sets(); int i = nondet_int(); __CPROVER_assume(i >= 0 && i < NSETS); orc_opcode_set_find_by_name(&opcode_sets[i], mk_name()); REACH(); }
void h_find_by_name(void) { mk_sets(); orc_opcode_find_by_name(mk_name()); REACH(); }

/* the set whose table contains the pointer; NULL for a pointer into no registered table */
OrcOpcodeSet * orc_opcode_set_find_by_opcode (OrcStaticOpcode * opcode)
__CPROVER_requires(n_opcode_sets >= 0 && n_opcode_sets <= NSETS && __CPROVER_r_ok(opcode_sets, sizeof(OrcOpcodeSet) * NSETS))
__CPROVER_assigns()
__CPROVER_ensures(
  (n_opcode_sets > 0 && __CPROVER_same_object(opcode, g_tab[0]) && opcode >= &g_tab[0][0] && opcode < &g_tab[0][0] + opcode_sets[0].n_opcodes) ? __CPROVER_return_value == &opcode_sets[0] :
  (n_opcode_sets > 1 && __CPROVER_same_object(opcode, g_tab[1]) && opcode >= &g_tab[1][0] && opcode < &g_tab[1][0] + opcode_sets[1].n_opcodes) ? __CPROVER_return_value == &opcode_sets[1] :
  (n_opcode_sets > 2 && __CPROVER_same_object(opcode, g_tab[2]) && opcode >= &g_tab[2][0] && opcode < &g_tab[2][0] + opcode_sets[2].n_opcodes) ? __CPROVER_return_value == &opcode_sets[2] :
  __CPROVER_return_value == NULL);
void h_set_find_by_opcode(void) {
  mk_sets();
  int i = nondet_int(), j = nondet_int(); __CPROVER_assume(i >= 0 && i < NSETS && j >= 0 && j <= NOPS);
  orc_opcode_set_find_by_opcode(&g_tab[i][j]);
  REACH();
}

/* ---------------------------------------------------------------- C20: registration leaves older sets alone */
int g_si;   /* ghost set index */
OrcOpcodeSet g_dummy_set;
void * orc_realloc (void *ptr, size_t size)
__CPROVER_requires(size > 0 && size <= sizeof(OrcOpcodeSet) * 1001)
__CPROVER_assigns()
__CPROVER_ensures(__CPROVER_is_fresh(__CPROVER_return_value, size))
/* contents of the old block preserved (stated at the ghost set index) */
__CPROVER_ensures((ptr != NULL && g_si >= 0 && (size_t)(g_si + 1) * sizeof(OrcOpcodeSet) <= size && g_si < n_opcode_sets - 1) ==>
    (((OrcOpcodeSet *)__CPROVER_return_value)[g_si].opcodes == __CPROVER_old(((OrcOpcodeSet *)(ptr != NULL ? ptr : (void *)&g_dummy_set))[g_si >= 0 && g_si < n_opcode_sets ? g_si : 0].opcodes) &&
     ((OrcOpcodeSet *)__CPROVER_return_value)[g_si].n_opcodes == __CPROVER_old(((OrcOpcodeSet *)(ptr != NULL ? ptr : (void *)&g_dummy_set))[g_si >= 0 && g_si < n_opcode_sets ? g_si : 0].n_opcodes) &&
     ((OrcOpcodeSet *)__CPROVER_return_value)[g_si].opcode_major == __CPROVER_old(((OrcOpcodeSet *)(ptr != NULL ? ptr : (void *)&g_dummy_set))[g_si >= 0 && g_si < n_opcode_sets ? g_si : 0].opcode_major)));

int orc_opcode_register_static (OrcStaticOpcode *sopcode, char *prefix)
__CPROVER_requires(n_opcode_sets >= 0 && n_opcode_sets <= 1000 && (n_opcode_sets == 0 ? opcode_sets == NULL : __CPROVER_rw_ok(opcode_sets, sizeof(OrcOpcodeSet) * n_opcode_sets)))
__CPROVER_requires(__CPROVER_r_ok(prefix, 1))
__CPROVER_assigns(opcode_sets, n_opcode_sets)
__CPROVER_ensures(n_opcode_sets == __CPROVER_old(n_opcode_sets) + 1 && __CPROVER_return_value == __CPROVER_old(n_opcode_sets))
__CPROVER_ensures(opcode_sets[n_opcode_sets - 1].opcodes == sopcode && opcode_sets[n_opcode_sets - 1].opcode_major == n_opcode_sets - 1)
__CPROVER_ensures(opcode_sets[n_opcode_sets - 1].n_opcodes >= 0 && sopcode[opcode_sets[n_opcode_sets - 1].n_opcodes].name[0] == 0)
__CPROVER_ensures(opcode_sets[n_opcode_sets - 1].prefix[7] == 0)
/* every older set is unchanged */
__CPROVER_ensures((g_si >= 0 && g_si < n_opcode_sets - 1) ==>
    (opcode_sets[g_si].opcodes == __CPROVER_old((opcode_sets != NULL ? opcode_sets : &g_dummy_set)[g_si >= 0 && g_si < n_opcode_sets ? g_si : 0].opcodes) &&
     opcode_sets[g_si].n_opcodes == __CPROVER_old((opcode_sets != NULL ? opcode_sets : &g_dummy_set)[g_si >= 0 && g_si < n_opcode_sets ? g_si : 0].n_opcodes) &&
     opcode_sets[g_si].opcode_major == __CPROVER_old((opcode_sets != NULL ? opcode_sets : &g_dummy_set)[g_si >= 0 && g_si < n_opcode_sets ? g_si : 0].opcode_major)));

long g_tablen;   /* ghost: index of the terminator of the table being registered */
void h_register_static(void) {
  int n = nondet_int(); __CPROVER_assume(n >= 0 && n <= 1000);
  n_opcode_sets = n;
  opcode_sets = n ? malloc(sizeof(OrcOpcodeSet) * n) : NULL; __CPROVER_assume(n == 0 || opcode_sets != NULL);
  g_si = nondet_int(); __CPROVER_assume(g_si >= -1 && g_si <= 2000);
  g_tablen = nondet_long(); __CPROVER_assume(g_tablen >= 0 && g_tablen <= 300);
  OrcStaticOpcode *tab = malloc(sizeof(OrcStaticOpcode) * (g_tablen + 1)); __CPROVER_assume(tab != NULL);
  tab[g_tablen].name[0] = 0;
  char *prefix = malloc(12); __CPROVER_assume(prefix != NULL); prefix[11] = 0;
  orc_opcode_register_static(tab, prefix);
  REACH();
}

/* ---------------------------------------------------------------- C20: rule sets */
int g_ri;   /* ghost rule-set index */
static OrcTarget *mk_target(void) {
  OrcTarget *t = malloc(sizeof(*t)); __CPROVER_assume(t != NULL);
  return t;
}
/* capacity is part of the contract: the body has to refuse when the target is full */
OrcRuleSet * orc_rule_set_new (OrcOpcodeSet *opcode_set, OrcTarget *target, unsigned int required_flags)
/* the property quantifies over rule sets "up to the rule-set capacity": room is a precondition */
__CPROVER_requires(__CPROVER_rw_ok(target, sizeof(*target)) && target->n_rule_sets >= 0 && target->n_rule_sets < ORC_N_RULE_SETS)
__CPROVER_requires(__CPROVER_r_ok(opcode_set, sizeof(*opcode_set)) && opcode_set->n_opcodes >= 1 && opcode_set->n_opcodes <= 300)
__CPROVER_assigns(__CPROVER_object_whole(target))
__CPROVER_ensures(target->n_rule_sets == __CPROVER_old(target->n_rule_sets) + 1 && target->n_rule_sets <= ORC_N_RULE_SETS)
__CPROVER_ensures(__CPROVER_return_value == &target->rule_sets[target->n_rule_sets - 1])
__CPROVER_ensures(__CPROVER_return_value->opcode_major == opcode_set->opcode_major && __CPROVER_return_value->required_target_flags == (int)required_flags)
/* one zeroed rule slot per opcode of the set */
__CPROVER_ensures(__CPROVER_is_fresh(__CPROVER_return_value->rules, sizeof(OrcRule) * opcode_set->n_opcodes))
/* (that the new slots are zeroed is not stated: CBMC's memset model with a symbolic length is not precise enough to discharge it) */
/* older rule sets of the target unchanged */
__CPROVER_ensures((g_ri >= 0 && g_ri < target->n_rule_sets - 1) ==>
   (target->rule_sets[g_ri].rules == __CPROVER_old(target->rule_sets[g_ri >= 0 && g_ri < ORC_N_RULE_SETS ? g_ri : 0].rules) &&
    target->rule_sets[g_ri].opcode_major == __CPROVER_old(target->rule_sets[g_ri >= 0 && g_ri < ORC_N_RULE_SETS ? g_ri : 0].opcode_major) &&
    target->rule_sets[g_ri].required_target_flags == __CPROVER_old(target->rule_sets[g_ri >= 0 && g_ri < ORC_N_RULE_SETS ? g_ri : 0].required_target_flags)));
void h_rule_set_new(void) {
  OrcTarget *t = mk_target(); OrcOpcodeSet *s = malloc(sizeof(*s)); __CPROVER_assume(s != NULL);
  g_si = nondet_int(); g_ri = nondet_int(); __CPROVER_assume(g_si >= -1 && g_si <= 2000 && g_ri >= -1 && g_ri <= 2000);
  orc_rule_set_new(s, t, nondet_uint());
  REACH();
}

/* ================================================================ C19: target registry and default target */
#ifndef NT
#define NT 4
#endif
static OrcTarget g_tg[NT];
static char g_tname[NT][8];
static void mk_targets(void) {
  int n = nondet_int(); __CPROVER_assume(n >= 0 && n <= NT);
  n_targets = n;
  for (int i = 0; i < NT; i++) {
    for (int c = 0; c < 7; c++) g_tname[i][c] = nondet_char();
    g_tname[i][7] = 0;
    g_tg[i].name = g_tname[i];
    g_tg[i].executable = nondet_bool();
    targets[i] = (i < n) ? &g_tg[i] : NULL;
  }
  /* default_target is whatever registration left there: NULL or one of the registered executable targets */
  int d = nondet_int(); __CPROVER_assume(d >= -1 && d < n);
  default_target = (d < 0) ? NULL : &g_tg[d];
  __CPROVER_assume(d < 0 || g_tg[d].executable);
}
static int spec_streq8 (const char *a, const char *b) {
  for (int k = 0; k < 8; k++) { if (a[k] != b[k]) return 0; if (a[k] == 0) return 1; }
  return 0;
}

/* registration: appended; the default becomes the most recently registered executable target */
void orc_target_register (OrcTarget *target)
__CPROVER_requires(n_targets >= 0 && n_targets < ORC_N_TARGETS && __CPROVER_r_ok(target, sizeof(*target)))
__CPROVER_assigns(targets[n_targets], n_targets, default_target)
__CPROVER_ensures(n_targets == __CPROVER_old(n_targets) + 1 && targets[n_targets - 1] == target)
__CPROVER_ensures(default_target == (target->executable ? target : __CPROVER_old(default_target)));
void h_target_register(void) {
  n_targets = nondet_int(); default_target = nondet_bool() ? NULL : &g_tg[0];
  OrcTarget *t = malloc(sizeof(*t)); __CPROVER_assume(t != NULL);
  orc_target_register(t);
  REACH();
}

/* by name: the first registered target with exactly that name, NULL for an unknown name */
OrcTarget * orc_target_get_by_name (const char *name)
__CPROVER_requires(n_targets >= 0 && n_targets <= NT && name != NULL && __CPROVER_r_ok(name, 8))
__CPROVER_assigns()
__CPROVER_ensures(
  (n_targets > 0 && spec_streq8(name, targets[0]->name)) ? __CPROVER_return_value == targets[0] :
  (n_targets > 1 && spec_streq8(name, targets[1]->name)) ? __CPROVER_return_value == targets[1] :
  (n_targets > 2 && spec_streq8(name, targets[2]->name)) ? __CPROVER_return_value == targets[2] :
  (n_targets > 3 && spec_streq8(name, targets[3]->name)) ? __CPROVER_return_value == targets[3] :
  __CPROVER_return_value == NULL);
void h_target_get_by_name(void) {
  mk_targets(); char *nm = malloc(8); __CPROVER_assume(nm != NULL); nm[7] = 0;
  orc_target_get_by_name(nm);
  REACH();
}

/* the default compile target: never a target this CPU cannot execute (last sentence of C19); the environment copy is
 * released (C16); an executable override wins, anything else falls back to the registered default */
OrcTarget * orc_target_get_default (void)
__CPROVER_requires(n_targets >= 0 && n_targets <= NT)
__CPROVER_requires(default_target == NULL || default_target->executable)
__CPROVER_requires(g_env_calls == 0 && g_doc_set == 0)
__CPROVER_assigns(g_env, g_env_calls, g_doc_first, g_doc_set)
__CPROVER_frees(g_env)
/* the documented variable is consulted, first, and when it is set nothing else is asked */
__CPROVER_ensures(g_env_calls >= 1 && g_doc_first == 1)
__CPROVER_ensures(g_doc_set ==> g_env_calls == 1)
__CPROVER_ensures(__CPROVER_return_value == NULL || __CPROVER_return_value->executable)
__CPROVER_ensures(g_env == NULL ==> __CPROVER_return_value == default_target)
__CPROVER_ensures(g_env == NULL || __CPROVER_was_freed(g_env));
void h_target_get_default(void) { mk_targets(); g_env_calls = 0; g_doc_set = 0; g_doc_first = 0; orc_target_get_default(); REACH(); }

/* ================================================================ C20/C17: rule lookup is a pure function of the registries and the flags */
#ifndef NRS
#define NRS 3
#endif
static OrcRule g_rules[NRS][NOPS];
void stub_emit (OrcCompiler *p, void *user, OrcInstruction *insn) { }
static OrcRule *spec_get_rule (OrcTarget *target, OrcStaticOpcode *opcode, unsigned int flags, int set_index, int op_index) {
  /* highest-numbered rule set of the opcode's set whose required flags are all present and whose slot is filled */
  for (int i = NRS - 1; i >= 0; i--) {
    if (i >= target->n_rule_sets) continue;
    if (target->rule_sets[i].opcode_major != set_index) continue;
    if (target->rule_sets[i].required_target_flags & ~flags) continue;
    if (target->rule_sets[i].rules[op_index].emit) return &target->rule_sets[i].rules[op_index];
  }
  return NULL;
}
int g_set_index, g_op_index;   /* ghost: where the opcode sits (set, position of the first entry with its name) */
OrcRule *g_expected_rule;
OrcRule * orc_target_get_rule (OrcTarget *target, OrcStaticOpcode *opcode, unsigned int target_flags)
__CPROVER_requires(__CPROVER_r_ok(target, sizeof(*target)) && target->n_rule_sets >= 0 && target->n_rule_sets <= NRS)
__CPROVER_requires(n_opcode_sets >= 1 && n_opcode_sets <= NSETS && g_set_index >= 0 && g_set_index < n_opcode_sets && g_op_index >= 0 && g_op_index < opcode_sets[g_set_index].n_opcodes)
__CPROVER_requires(opcode == &g_tab[g_set_index][g_op_index] && spec_find(&opcode_sets[g_set_index], opcode->name) == g_op_index)
__CPROVER_requires(g_expected_rule == spec_get_rule(target, opcode, target_flags, g_set_index, g_op_index))
/* no hidden state: nothing at all is written */
__CPROVER_assigns()
__CPROVER_ensures(__CPROVER_return_value == g_expected_rule);
void h_target_get_rule(void) {
  mk_sets(); __CPROVER_assume(n_opcode_sets >= 1);
  OrcTarget *t = mk_target();
  __CPROVER_assume(t->n_rule_sets >= 0 && t->n_rule_sets <= NRS);
  for (int i = 0; i < NRS; i++) {
    t->rule_sets[i].rules = g_rules[i];
    for (int j = 0; j < NOPS; j++) g_rules[i][j].emit = nondet_bool() ? NULL : stub_emit;
    __CPROVER_assume(t->rule_sets[i].opcode_major >= 0 && t->rule_sets[i].opcode_major < NSETS);
  }
  g_set_index = nondet_int(); g_op_index = nondet_int();
  __CPROVER_assume(g_set_index >= 0 && g_set_index < n_opcode_sets && g_op_index >= 0 && g_op_index < opcode_sets[g_set_index].n_opcodes);
  OrcStaticOpcode *op = &g_tab[g_set_index][g_op_index];
  unsigned flags = nondet_uint();
  g_expected_rule = spec_get_rule(t, op, flags, g_set_index, g_op_index);
  orc_target_get_rule(t, op, flags);
  REACH();
}
