/* Wrapper TU for orc/orcfunctions.c (property C07): the library's own orcc-generated helpers orc_memcpy / orc_memset,
 * C-level paths only: the Orc-free DISABLE_ORC bodies and the _backup_ functions (ORC_CODE=backup). */
#include "stubs/prelude.h"
/* SMALL_N: bounded companions without loop contracts (n <= 3, loops unwound): they keep deciding the property when a
 * rewritten loop no longer matches the loop-contract anchor (seed C07_c07b) */
#ifdef SMALL_N
#define NMAXF 3
#else
#define NMAXF 1000000
#endif
#include "/repo/orc/orcfunctions.c"
unsigned long __gk;   /* ghost byte index */

#ifdef DISABLE_ORC
/* memcpy: every byte of [0,n) copied, nothing else written, any alignment (byte arrays at arbitrary offsets) */
void orc_memcpy (void * ORC_RESTRICT d1, const void * ORC_RESTRICT s1, int n)
__CPROVER_requires(n >= 0 && n <= NMAXF && __CPROVER_is_fresh(d1, n) && __CPROVER_is_fresh(s1, n))
__CPROVER_assigns(__CPROVER_object_upto(d1, (unsigned long)n))
__CPROVER_ensures(__gk < (unsigned long)n ==> ((unsigned char *)d1)[__gk] == ((const unsigned char *)s1)[__gk]);
void orc_memset (void * ORC_RESTRICT d1, int p1, int n)
__CPROVER_requires(n >= 0 && n <= NMAXF && __CPROVER_is_fresh(d1, n))
__CPROVER_assigns(__CPROVER_object_upto(d1, (unsigned long)n))
__CPROVER_ensures(__gk < (unsigned long)n ==> ((unsigned char *)d1)[__gk] == (unsigned char)p1);
void h_memcpy(void) { __gk = nondet_ulong(); orc_memcpy(nondet_ptr(), nondet_ptr(), nondet_int()); REACH(); }
void h_memset(void) { __gk = nondet_ulong(); orc_memset(nondet_ptr(), nondet_int(), nondet_int()); REACH(); }
#else
static void _backup_orc_memcpy (OrcExecutor * ORC_RESTRICT ex)
__CPROVER_requires(__CPROVER_is_fresh(ex, sizeof(*ex)) && ex->n >= 0 && ex->n <= NMAXF)
__CPROVER_requires(__CPROVER_is_fresh(ex->arrays[ORC_VAR_D1], ex->n) && __CPROVER_is_fresh(ex->arrays[ORC_VAR_S1], ex->n))
__CPROVER_assigns(__CPROVER_object_upto(ex->arrays[ORC_VAR_D1], (unsigned long)ex->n))
__CPROVER_ensures(__gk < (unsigned long)ex->n ==> ((unsigned char *)ex->arrays[ORC_VAR_D1])[__gk] == ((unsigned char *)ex->arrays[ORC_VAR_S1])[__gk]);
static void _backup_orc_memset (OrcExecutor * ORC_RESTRICT ex)
__CPROVER_requires(__CPROVER_is_fresh(ex, sizeof(*ex)) && ex->n >= 0 && ex->n <= NMAXF)
__CPROVER_requires(__CPROVER_is_fresh(ex->arrays[ORC_VAR_D1], ex->n))
__CPROVER_assigns(__CPROVER_object_upto(ex->arrays[ORC_VAR_D1], (unsigned long)ex->n))
__CPROVER_ensures(__gk < (unsigned long)ex->n ==> ((unsigned char *)ex->arrays[ORC_VAR_D1])[__gk] == (unsigned char)ex->params[ORC_VAR_P1]);
void h_backup_memcpy(void) { __gk = nondet_ulong(); _backup_orc_memcpy(nondet_ptr()); REACH(); }
void h_backup_memset(void) { __gk = nondet_ulong(); _backup_orc_memset(nondet_ptr()); REACH(); }
#endif
