/* Wrapper TU for orc/orcbytecode.c (property C13): primitives as inverse pairs. */
#include "stubs/prelude.h"
#include "/repo/orc/orcbytecode.c"
#include "stubs/log_stub.c"

long g_bi;
long g_ix[3];   /* ghost byte indices whose contents are tracked across appends */

#define BC_OK(b) (__CPROVER_rw_ok((b), sizeof(OrcBytecode)) && (b)->length >= 0 && (b)->length <= (b)->alloc_len && \
   (b)->alloc_len > 0 && (b)->alloc_len <= 1002048 && \
   __CPROVER_rw_ok((b)->bytecode, (b)->alloc_len))
#define B(b, k) ((unsigned)(b)->bytecode[k])

/* assumed libc-level contract: realloc of the bytecode buffer (old size = ghost g_old_alloc) to a larger size
 * preserves the old contents (stated at the ghost indices) */
long g_old_alloc;
#define RKEPT(k) __CPROVER_ensures((g_ix[k] >= 0 && g_ix[k] < g_old_alloc) ==> \
      ((unsigned char *)__CPROVER_return_value)[g_ix[k]] == __CPROVER_old(((unsigned char *)ptr)[g_ix[k] >= 0 && g_ix[k] < g_old_alloc ? g_ix[k] : 0]))
void * orc_realloc (void *ptr, size_t size)
__CPROVER_requires(size > 0 && size <= 1002304 && __CPROVER_rw_ok(ptr, g_old_alloc) && g_old_alloc > 0 && (size_t)g_old_alloc <= size)
__CPROVER_assigns()
__CPROVER_ensures(__CPROVER_is_fresh(__CPROVER_return_value, size))
RKEPT(0) RKEPT(1) RKEPT(2);

/* ------------------------------------------------------------------ append side */
/* Every byte below the new length is either an old byte (unchanged) or one of the bytes the call appends.  Stated
 * at three universally quantified ghost indices g_ix[0..2] (three are needed once: the 3-byte integer form). */
#define KEPT(b, k) __CPROVER_ensures((g_ix[k] >= 0 && g_ix[k] < __CPROVER_old((b)->length)) ==> \
      (b)->bytecode[g_ix[k]] == __CPROVER_old((b)->bytecode[g_ix[k] >= 0 && g_ix[k] < (b)->length ? g_ix[k] : 0]))
#define KEPT_ALL(b) KEPT(b,0) KEPT(b,1) KEPT(b,2)
#define APPEND_FRAME(b) \
__CPROVER_assigns((b)->bytecode, (b)->length, (b)->alloc_len, __CPROVER_object_whole((b)->bytecode)) \
__CPROVER_ensures((b)->alloc_len >= (b)->length && (b)->alloc_len <= __CPROVER_old((b)->alloc_len) + 2048) \
__CPROVER_ensures(__CPROVER_is_fresh((b)->bytecode, (b)->alloc_len))
/* lane k (0-based) of the bytes appended by this call, for each ghost index that falls into the appended range */
#define NEWB(b, k, expr) __CPROVER_ensures((g_ix[k] >= __CPROVER_old((b)->length) && g_ix[k] < (b)->length) ==> \
      B(b, g_ix[k]) == (unsigned)(expr))
#define LANE(b, k) (g_ix[k] - __CPROVER_old((b)->length))

void bytecode_append_byte (OrcBytecode *bytecode, int byte)
__CPROVER_requires(BC_OK(bytecode))
APPEND_FRAME(bytecode)
__CPROVER_ensures(bytecode->length == __CPROVER_old(bytecode->length) + 1)
__CPROVER_ensures(bytecode->alloc_len <= __CPROVER_old(bytecode->alloc_len) + 256)
__CPROVER_ensures(B(bytecode, bytecode->length - 1) == (unsigned)(byte & 0xff))
KEPT_ALL(bytecode);

#define INT_BYTE(v, lane) ((v) < 255 ? (v) : ((lane) == 0 ? 255 : ((lane) == 1 ? ((v) & 0xff) : ((v) >> 8))))
void bytecode_append_int (OrcBytecode *bytecode, int value)
__CPROVER_requires(BC_OK(bytecode) && value >= 0 && value < 65535)
APPEND_FRAME(bytecode)
__CPROVER_ensures(bytecode->length == __CPROVER_old(bytecode->length) + (value < 255 ? 1 : 3))
NEWB(bytecode, 0, INT_BYTE(value, LANE(bytecode, 0))) NEWB(bytecode, 1, INT_BYTE(value, LANE(bytecode, 1))) NEWB(bytecode, 2, INT_BYTE(value, LANE(bytecode, 2)))
KEPT_ALL(bytecode);

void bytecode_append_uint32 (OrcBytecode *bytecode, orc_uint32 value)
__CPROVER_requires(BC_OK(bytecode))
APPEND_FRAME(bytecode)
__CPROVER_ensures(bytecode->length == __CPROVER_old(bytecode->length) + 4)
NEWB(bytecode, 0, (value >> (8 * LANE(bytecode, 0))) & 0xff) NEWB(bytecode, 1, (value >> (8 * LANE(bytecode, 1))) & 0xff) NEWB(bytecode, 2, (value >> (8 * LANE(bytecode, 2))) & 0xff)
KEPT_ALL(bytecode);

void bytecode_append_uint64 (OrcBytecode *bytecode, orc_uint64 value)
__CPROVER_requires(BC_OK(bytecode))
APPEND_FRAME(bytecode)
__CPROVER_ensures(bytecode->length == __CPROVER_old(bytecode->length) + 8)
NEWB(bytecode, 0, (value >> (8 * LANE(bytecode, 0))) & 0xff) NEWB(bytecode, 1, (value >> (8 * LANE(bytecode, 1))) & 0xff) NEWB(bytecode, 2, (value >> (8 * LANE(bytecode, 2))) & 0xff)
KEPT_ALL(bytecode);

/* ------------------------------------------------------------------ parse side */
long g_plen;   /* ghost: number of readable bytes in the buffer being parsed */
#define PARSE_OK(p, n) (__CPROVER_rw_ok((p), sizeof(OrcBytecodeParse)) && g_plen >= 1 && g_plen <= 1002048 && \
      __CPROVER_r_ok((p)->bytecode, g_plen) && (p)->parse_offset >= 0 && (long)(p)->parse_offset + (n) <= g_plen)
#define PB(p, k) ((unsigned)(p)->bytecode[__CPROVER_old((p)->parse_offset) + (k)])
static int orc_bytecode_parse_get_byte (OrcBytecodeParse *parse)
__CPROVER_requires(PARSE_OK(parse, 1))
__CPROVER_assigns(parse->parse_offset)
__CPROVER_ensures(parse->parse_offset == __CPROVER_old(parse->parse_offset) + 1)
__CPROVER_ensures(__CPROVER_return_value == (int)PB(parse, 0));

static int orc_bytecode_parse_get_int (OrcBytecodeParse *parse)
__CPROVER_requires(PARSE_OK(parse, 1) && (parse->bytecode[parse->parse_offset] == 255 ==> PARSE_OK(parse, 3)))
__CPROVER_assigns(parse->parse_offset)
__CPROVER_ensures(PB(parse, 0) != 255 ==> (__CPROVER_return_value == (int)PB(parse, 0) && parse->parse_offset == __CPROVER_old(parse->parse_offset) + 1))
__CPROVER_ensures(PB(parse, 0) == 255 ==> (__CPROVER_return_value == (int)(PB(parse, 1) | (PB(parse, 2) << 8)) && parse->parse_offset == __CPROVER_old(parse->parse_offset) + 3));

static orc_uint32 orc_bytecode_parse_get_uint32 (OrcBytecodeParse *parse)
__CPROVER_requires(PARSE_OK(parse, 4))
__CPROVER_assigns(parse->parse_offset)
__CPROVER_ensures(parse->parse_offset == __CPROVER_old(parse->parse_offset) + 4)
__CPROVER_ensures(__CPROVER_return_value == (PB(parse, 0) | (PB(parse, 1) << 8) | (PB(parse, 2) << 16) | (PB(parse, 3) << 24)));

static orc_uint64 orc_bytecode_parse_get_uint64 (OrcBytecodeParse *parse)
__CPROVER_requires(PARSE_OK(parse, 8))
__CPROVER_assigns(parse->parse_offset)
__CPROVER_ensures(parse->parse_offset == __CPROVER_old(parse->parse_offset) + 8)
__CPROVER_ensures(__CPROVER_return_value == ((orc_uint64)PB(parse, 0) | ((orc_uint64)PB(parse, 1) << 8) | ((orc_uint64)PB(parse, 2) << 16) | ((orc_uint64)PB(parse, 3) << 24) |
      ((orc_uint64)PB(parse, 4) << 32) | ((orc_uint64)PB(parse, 5) << 40) | ((orc_uint64)PB(parse, 6) << 48) | ((orc_uint64)PB(parse, 7) << 56)));

static OrcBytecode *mk_bc(void) {
  OrcBytecode *b = malloc(sizeof(*b)); __CPROVER_assume(b != NULL);
  __CPROVER_assume(b->alloc_len > 0 && b->alloc_len <= 1000000 && b->length >= 0 && b->length <= b->alloc_len);   /* entry states: up to 10^6; internal growth up to +2048 */
  b->bytecode = malloc(b->alloc_len); __CPROVER_assume(b->bytecode != NULL);
  g_bi = nondet_long(); g_old_alloc = b->alloc_len;
  for (int k = 0; k < 3; k++) { g_ix[k] = nondet_long(); __CPROVER_assume(g_ix[k] >= -1 && g_ix[k] <= 2000000); }
  return b;
}
void h_append_byte(void) { OrcBytecode *b = mk_bc(); int v = nondet_int(); bytecode_append_byte(b, v); REACH(); }

void h_append_int(void) { OrcBytecode *b = mk_bc(); int v = nondet_int(); bytecode_append_int(b, v); REACH(); }
void h_append_uint32(void) { OrcBytecode *b = mk_bc(); orc_uint32 v = nondet_uint(); bytecode_append_uint32(b, v); REACH(); }
void h_append_uint64(void) { OrcBytecode *b = mk_bc(); orc_uint64 v = nondet_ulong(); bytecode_append_uint64(b, v); REACH(); }
static OrcBytecodeParse *mk_parse(void) {
  OrcBytecodeParse *p = malloc(sizeof(*p)); __CPROVER_assume(p != NULL);
  long n = nondet_long(); __CPROVER_assume(n >= 1 && n <= 1000016);
  unsigned char *buf = malloc(n); __CPROVER_assume(buf != NULL); g_plen = n;
  p->bytecode = buf;
  return p;
}
void h_get_byte(void) { OrcBytecodeParse *p = mk_parse(); orc_bytecode_parse_get_byte(p); REACH(); }
void h_get_int(void) { OrcBytecodeParse *p = mk_parse(); orc_bytecode_parse_get_int(p); REACH(); }
void h_get_uint32(void) { OrcBytecodeParse *p = mk_parse(); orc_bytecode_parse_get_uint32(p); REACH(); }
void h_get_uint64(void) { OrcBytecodeParse *p = mk_parse(); orc_bytecode_parse_get_uint64(p); REACH(); }

/* ------------------------------------------------------------------ inverse-pair lemmas over the two contracts */
/* The ghost indices are universally quantified (left nondeterministic), so a fact proved "for the lane selected by
 * g_ix[0]" holds for every lane; equality of all byte lanes is equality of the values (bit-vector extensionality). */
void lemma_int(void) {
  OrcBytecode *b = mk_bc(); int v = nondet_int(); __CPROVER_assume(v >= 0 && v < 65535);
  int start = b->length;
  /* the three ghosts select the (up to) three bytes of this encoding */
  __CPROVER_assume(g_ix[0] == start && g_ix[1] == start + 1 && g_ix[2] == start + 2);
  bytecode_append_int(b, v);
  OrcBytecodeParse ps; ps.bytecode = b->bytecode; ps.parse_offset = start; g_plen = b->length;
  int r = orc_bytecode_parse_get_int(&ps);
  __CPROVER_assert(r == v, "decode(encode(v)) == v for every 0 <= v < 65535 (incl. 254, 255, 65534)");
  __CPROVER_assert(ps.parse_offset == b->length, "decoder consumes exactly the bytes the encoder produced");
  REACH();
}
void lemma_uint32(void) {
  OrcBytecode *b = mk_bc(); orc_uint32 v = nondet_uint(); int start = b->length;
  bytecode_append_uint32(b, v);
  OrcBytecodeParse ps; ps.bytecode = b->bytecode; ps.parse_offset = start; g_plen = b->length;
  orc_uint32 r = orc_bytecode_parse_get_uint32(&ps);
  long lane = g_ix[0] - start;
  __CPROVER_assert(!(lane >= 0 && lane < 4) || ((r >> (8 * lane)) & 0xff) == ((v >> (8 * lane)) & 0xff), "byte lane g of decode32(encode32(v)) equals byte lane g of v, for every lane g");
  __CPROVER_assert(ps.parse_offset == b->length, "decoder consumes exactly the bytes the encoder produced");
  REACH();
}
void lemma_uint64(void) {
  OrcBytecode *b = mk_bc(); orc_uint64 v = nondet_ulong(); int start = b->length;
  bytecode_append_uint64(b, v);
  OrcBytecodeParse ps; ps.bytecode = b->bytecode; ps.parse_offset = start; g_plen = b->length;
  orc_uint64 r = orc_bytecode_parse_get_uint64(&ps);
  long lane = g_ix[0] - start;
  __CPROVER_assert(!(lane >= 0 && lane < 8) || ((r >> (8 * lane)) & 0xff) == ((v >> (8 * lane)) & 0xff), "byte lane g of decode64(encode64(v)) equals byte lane g of v, for every lane g");
  __CPROVER_assert(ps.parse_offset == b->length, "decoder consumes exactly the bytes the encoder produced");
  REACH();
}
/* extensionality step, checked rather than assumed */
void lemma_lanes(void) {
  orc_uint64 r = nondet_ulong(), v = nondet_ulong();
  __CPROVER_assume(((r >> 0) & 0xff) == ((v >> 0) & 0xff) && ((r >> 8) & 0xff) == ((v >> 8) & 0xff) && ((r >> 16) & 0xff) == ((v >> 16) & 0xff) &&
     ((r >> 24) & 0xff) == ((v >> 24) & 0xff) && ((r >> 32) & 0xff) == ((v >> 32) & 0xff) && ((r >> 40) & 0xff) == ((v >> 40) & 0xff) &&
     ((r >> 48) & 0xff) == ((v >> 48) & 0xff) && ((r >> 56) & 0xff) == ((v >> 56) & 0xff));
  __CPROVER_assert(r == v, "all eight byte lanes equal => values equal");
  REACH();
}

/* ------------------------------------------------------------------ instruction record of the real encoder */
/* orc_bytecode_from_program on a program with no declarations and one arbitrary instruction: the append primitives are
 * replaced by their contracts, the operand order d0 d1 s0 s1 s2 of the record is the postcondition (what the real
 * decoder, orc_bytecode_parse_function, reads back in that order).  Entry states: every field of the instruction and
 * every operand-size pattern of its opcode; variable indices < 255 (C05: < ORC_N_VARIABLES), flags < 65535. */
#ifdef VERIF_INSN_RECORD
static OrcStaticOpcode g_opc[4];
static OrcOpcodeSet g_set;
OrcOpcodeSet *orc_opcode_set_get (const char *name) { return &g_set; }
void *orc_malloc (size_t size) { void *p = malloc(size); __CPROVER_assume(p != NULL); return p; }
void lemma_insn_record(void) {
  OrcProgram *p = calloc(1, sizeof(*p)); __CPROVER_assume(p != NULL);
  unsigned oi = nondet_uint(); __CPROVER_assume(oi < 4);
  g_set.opcodes = g_opc; g_set.n_opcodes = 4;
  OrcStaticOpcode *op = &g_opc[oi];
  OrcInstruction *in = &p->insns[0];
  p->n_insns = 1; in->opcode = op;
  unsigned fl = nondet_uint(); __CPROVER_assume(fl < 65535); in->flags = fl;
  int arg[5], present[5];
  for (int k = 0; k < 5; k++) { arg[k] = nondet_int(); __CPROVER_assume(arg[k] >= 0 && arg[k] < 255); }
  in->dest_args[0] = arg[0]; in->dest_args[1] = arg[1]; in->src_args[0] = arg[2]; in->src_args[1] = arg[3]; in->src_args[2] = arg[4];
  present[0] = op->dest_size[0] != 0; present[1] = op->dest_size[1] != 0;
  present[2] = op->src_size[0] != 0; present[3] = op->src_size[1] != 0; present[4] = op->src_size[2] != 0;
  long opos = 1 + (fl ? 1 + (fl < 255 ? 1 : 3) : 0);   /* BEGIN_FUNCTION, optional flags record, then the opcode byte */
  int k = nondet_int(); __CPROVER_assume(k >= 0 && k < 5);   /* the operand looked at: universally quantified */
  long kpos = opos + 1; for (int j = 0; j < 5; j++) if (j < k && present[j]) kpos++;
  long n_ops = 0; for (int j = 0; j < 5; j++) if (present[j]) n_ops++;
  g_ix[0] = opos; g_ix[1] = kpos; g_ix[2] = fl ? 1 : -1; g_old_alloc = 256;
  OrcBytecode *b = orc_bytecode_from_program(p);
  __CPROVER_assert(b->length == opos + 1 + n_ops + 2, "record length: [flags] opcode, one byte per present operand, END_FUNCTION, END");
  __CPROVER_assert(B(b, opos) == oi + 32, "opcode byte is the opcode's index in the sys set + 32");
  __CPROVER_assert(!present[k] || B(b, kpos) == (unsigned)arg[k], "operand k of the record is written at its position in the order d0 d1 s0 s1 s2");
  __CPROVER_assert(!fl || B(b, 1) == ORC_BC_INSTRUCTION_FLAGS, "flags record precedes the opcode byte");
  REACH();
}
#endif
