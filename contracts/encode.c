/* C10 (register save/restore actually happens): the machine code of push / pop is the push / pop of THAT register.
 * Contract of the real encoder (orc/orcx86insn.c: orc_x86_insn_output_opcode/_modrm/_immediate, called in the order
 * orc_x86_output_insns calls them) for a push/pop record, in assume(requires)/assert(ensures) form:
 *   bytes == [0x41 if the register is r8-r15] ++ [0x50 (push) | 0x58 (pop) + (register & 7)]
 * (Intel SDM vol. 2: PUSH r64 = 50+rd, POP r64 = 58+rd, REX.B extends rd). */
#include "stubs/prelude.h"
#include "/repo/orc/orcx86insn.c"
#include "stubs/log_stub.c"

void h_encode_stack (void)
{
  OrcCompiler *p = malloc (sizeof (OrcCompiler));
  OrcX86Insn *x = malloc (sizeof (OrcX86Insn));
  unsigned char *buf = malloc (16);
  __CPROVER_assume (p != NULL && x != NULL && buf != NULL);
  int is_pop = nondet_bool ();
  int reg = nondet_int ();
  __CPROVER_assume (p->is_64bit == 0 || p->is_64bit == 1);
  __CPROVER_assume (reg >= X86_EAX && reg <= (p->is_64bit ? X86_R15 : X86_EDI));
  x->opcode_index = is_pop ? ORC_X86_pop : ORC_X86_push;
  x->opcode = orc_x86_opcodes + x->opcode_index;
  x->prefix = ORC_X86_NO_PREFIX;
  x->src[0] = reg; x->dest = reg; x->type = ORC_X86_RM_REG;
  x->size = p->is_64bit ? 8 : 4;
  p->codeptr = buf;
  orc_x86_insn_output_opcode (p, x);
  orc_x86_insn_output_modrm (p, x);
  orc_x86_insn_output_immediate (p, x);
  int n = (int) (p->codeptr - buf);
  int ext = (reg - X86_EAX) >= 8;
  __CPROVER_assert (n == (ext ? 2 : 1), "postcondition: push/pop is one byte, two for r8-r15");
  __CPROVER_assert (!ext || buf[0] == 0x41, "postcondition: REX.B prefix for r8-r15");
  __CPROVER_assert (buf[n - 1] == (is_pop ? 0x58 : 0x50) + ((reg - X86_EAX) & 7), "postcondition: opcode byte 50+rd / 58+rd names the register");
  REACH ();
}
