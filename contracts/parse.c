/* Wrapper TU for orc/orcparse.c (property C14, C15): the real file is included verbatim; contracts are attached to
 * re-declarations; harnesses build arbitrary well-formed inputs. */
#include "stubs/prelude.h"
#include "/repo/orc/orcparse.c"
#include "contracts/program_api.h"
#include "stubs/log_stub.c"

/* ---------------------------------------------------------------- ghost state */
char *g_buf;          /* the line buffer: g_len+1 bytes, g_buf[g_len] == 0 */
long g_len;
const char *g_code;   /* the source text: g_code_len+1 bytes, first NUL at g_code_len */
long g_code_len;

/* ---------------------------------------------------------------- assumed libc models (listed in evidence) */
/* strcmp/strtol/strtod on NUL-terminated strings: result abstracted (sound for safety/termination) */
int strcmp (const char *a, const char *b) { __CPROVER_assert(__CPROVER_r_ok(a, 1) && __CPROVER_r_ok(b, 1), "strcmp arguments are readable strings"); return nondet_int(); }
long strtol (const char *s, char **end, int base) { __CPROVER_assert(__CPROVER_r_ok(s, 1), "strtol argument is a readable string"); if (end) *end = (char *)s; return nondet_long(); }
double nondet_double(void);
double strtod (const char *s, char **end) {
  __CPROVER_assert(__CPROVER_r_ok(s, 1), "strtod argument is a readable string");
  if (end) { *end = (char *)s + (nondet_bool() ? 0 : 1); }   /* consumed nothing, or at least one character */
  return nondet_double();
}
int snprintf (char *buf, size_t size, const char *fmt, ...) {
  __CPROVER_assert(__CPROVER_w_ok(buf, size), "snprintf buffer");
  if (size > 0) { size_t k = nondet_ulong(); __CPROVER_assume(k < size); buf[k] = 0; }
  return nondet_int();
}
int vasprintf (char **strp, const char *fmt, __builtin_va_list ap) {
  if (nondet_bool()) return -1;
  size_t k = nondet_ulong(); __CPROVER_assume(k < 64);
  char *r = malloc(k + 1); __CPROVER_assume(r != NULL); r[k] = 0; *strp = r; return (int)k;
}
char *strdup (const char *s) {
  __CPROVER_assert(__CPROVER_r_ok(s, 1), "strdup argument is a readable string");
  size_t k = nondet_ulong(); __CPROVER_assume(k < 64);
  char *r = malloc(k + 1); __CPROVER_assume(r != NULL); r[k] = 0; return r;
}
/* strlen/strchr on the parser's source text: modelled through the ghost (first NUL of g_code is at g_code_len) */
size_t strlen (const char *s) {
  __CPROVER_assert(SAME(s, g_code) && OFF(s) >= 0 && OFF(s) <= g_code_len, "strlen on the source text");
  return (size_t)(g_code_len - OFF(s));
}
char *strchr (const char *s, int c) {
  __CPROVER_assert(SAME(s, g_code) && OFF(s) >= 0 && OFF(s) <= g_code_len, "strchr on the source text");
  if (nondet_bool()) return NULL;
  long k = nondet_long();
  __CPROVER_assume(k >= 0 && OFF(s) + k <= g_code_len && s[k] == (char)c);   /* never beyond the first NUL */
  return (char *)s + k;
}
OrcOpcodeSet g_sys_set;
OrcOpcodeSet *orc_opcode_set_get (const char *name) { return nondet_bool() ? &g_sys_set : NULL; }

/* ---------------------------------------------------------------- predicates */
#define LINE_OK(l) ( \
   (l)->end == g_buf + g_len && __CPROVER_pointer_in_range_dfcc(g_buf, (l)->p, g_buf + g_len + 1) && \
   (l)->n_tokens >= 0 && (l)->n_tokens <= ORC_LINE_MAX_TOKENS )
#define TOK_OK(l, j) (SAME((l)->tokens[j], g_buf) && OFF((l)->tokens[j]) >= 0 && OFF((l)->tokens[j]) <= g_len)
#define BUF_OK() (g_len >= 0 && g_len <= 100000 && __CPROVER_rw_ok(g_buf, g_len + 1) && g_buf[g_len] == 0)

/* ---------------------------------------------------------------- token layer contracts */
static void orc_line_skip_blanks (OrcLine *line)
__CPROVER_requires(BUF_OK() && __CPROVER_rw_ok(line, sizeof(*line)) && LINE_OK(line) && OFF(line->p) <= g_len)
__CPROVER_assigns(line->p)
__CPROVER_ensures(LINE_OK(line) && OFF(line->p) <= g_len && OFF(line->p) >= __CPROVER_old(OFF(line->p)))
__CPROVER_ensures(line->p[0] != ' ' && line->p[0] != '\t');

static void orc_line_advance (OrcLine *line)
__CPROVER_requires(BUF_OK() && __CPROVER_rw_ok(line, sizeof(*line)) && LINE_OK(line) && OFF(line->p) <= g_len)
__CPROVER_assigns(line->p)
__CPROVER_ensures(LINE_OK(line) && OFF(line->p) <= g_len && OFF(line->p) >= __CPROVER_old(OFF(line->p)))
__CPROVER_ensures(line->p[0] == 0 || line->p[0] == ' ' || line->p[0] == '\t' || line->p[0] == ',');

/* the callee cannot know whether there is room: room is a precondition, the tokenizer loop must establish it */
static void orc_line_add_token (OrcLine *line)
__CPROVER_requires(BUF_OK() && __CPROVER_rw_ok(line, sizeof(*line)) && LINE_OK(line) && OFF(line->p) <= g_len)
__CPROVER_requires(line->n_tokens < ORC_LINE_MAX_TOKENS)
__CPROVER_assigns(line->p, line->n_tokens, line->tokens[line->n_tokens], __CPROVER_object_whole(g_buf))
__CPROVER_ensures(LINE_OK(line) && line->n_tokens == __CPROVER_old(line->n_tokens) + 1)
__CPROVER_ensures(OFF(line->p) > __CPROVER_old(OFF(line->p)))
__CPROVER_ensures(line->tokens[line->n_tokens - 1] == __CPROVER_old(line->p))
__CPROVER_ensures(g_buf[g_len] == 0 && line->p[-1] == 0);

long g_tk;   /* ghost token index */
static void orc_line_parse_tokens (OrcLine *line)
__CPROVER_requires(BUF_OK() && __CPROVER_rw_ok(line, sizeof(*line)) && LINE_OK(line) && line->n_tokens == 0)
__CPROVER_assigns(__CPROVER_object_whole(line), __CPROVER_object_whole(g_buf))
__CPROVER_ensures(LINE_OK(line) && g_buf[g_len] == 0)
__CPROVER_ensures((0 <= g_tk && g_tk < line->n_tokens) ==> TOK_OK(line, g_tk));

/* arbitrary line state: buffer of symbolic length (unbounded up to the object cap), cursor anywhere */
static OrcLine *mk_line(void) {
  g_len = nondet_long(); __CPROVER_assume(g_len >= 0 && g_len <= 100000);
  g_buf = malloc(g_len + 1); __CPROVER_assume(g_buf != NULL); g_buf[g_len] = 0;
  OrcLine *l = malloc(sizeof(*l)); __CPROVER_assume(l != NULL);
  long off = nondet_long(); __CPROVER_assume(off >= 0 && off <= g_len + 1);
  l->p = g_buf + off; l->end = g_buf + g_len;
  return l;
}
void h_skip_blanks(void) { OrcLine *line = mk_line(); orc_line_skip_blanks(line); REACH(); }
void h_advance(void) { OrcLine *line = mk_line(); orc_line_advance(line); REACH(); }
void h_add_token(void) { OrcLine *line = mk_line(); orc_line_add_token(line); REACH(); }
void h_parse_tokens(void) { OrcLine *line = mk_line(); g_tk = nondet_long(); orc_line_parse_tokens(line); REACH(); }

/* ================================================================ parser state, errors, handlers */
#define VEC_OK(v) ((v)->n_items >= 0 && (v)->n_items <= (v)->n_items_alloc && (v)->n_items_alloc <= 1000032 && \
   ((v)->n_items_alloc == 0 || __CPROVER_rw_ok((v)->items, sizeof(void *) * (v)->n_items_alloc)))
#define OPSET_OK(s) (__CPROVER_r_ok((s), sizeof(OrcOpcodeSet)) && (s)->n_opcodes >= 0 && (s)->n_opcodes <= 300 && \
   __CPROVER_r_ok((s)->opcodes, sizeof(OrcStaticOpcode) * (s)->n_opcodes))
#define PARSER_OK(p) (__CPROVER_rw_ok((p), sizeof(OrcParser)) && VEC_OK(&(p)->errors) && VEC_OK(&(p)->programs) && \
   ((p)->program == NULL || PROGRAM_OK((p)->program)) && OPSET_OK((p)->opcode_set) && \
   ((p)->init_function == NULL || __CPROVER_r_ok((p)->init_function, 1)))
#define T_OK(l, j) ((j) >= (l)->n_tokens || TOK_OK(l, j))
#ifdef NO_TOK
#define HLINE_OK(l) (__CPROVER_r_ok((l), sizeof(OrcLine)) && (l)->n_tokens >= 1 && (l)->n_tokens <= ORC_LINE_MAX_TOKENS)
#else
#define HLINE_OK(l) (__CPROVER_r_ok((l), sizeof(OrcLine)) && (l)->n_tokens >= 1 && (l)->n_tokens <= ORC_LINE_MAX_TOKENS && \
   T_OK(l,0) && T_OK(l,1) && T_OK(l,2) && T_OK(l,3) && T_OK(l,4) && T_OK(l,5) && T_OK(l,6) && T_OK(l,7) && \
   T_OK(l,8) && T_OK(l,9) && T_OK(l,10) && T_OK(l,11) && T_OK(l,12) && T_OK(l,13) && T_OK(l,14) && T_OK(l,15))
#endif

/* orcutils.c vector: contract (enforced on the real body in unit orc_vector_append) */
long g_vk;   /* ghost index into the vector */
void orc_vector_append (OrcVector *vector, void *item)
__CPROVER_requires(__CPROVER_rw_ok(vector, sizeof(*vector)) && VEC_OK(vector))
__CPROVER_assigns(vector->items, vector->n_items, vector->n_items_alloc; vector->items != NULL: __CPROVER_object_whole(vector->items))
__CPROVER_frees(vector->items)
__CPROVER_ensures(vector->n_items == __CPROVER_old(vector->n_items) + 1)
/* full => a fresh, larger array (old one released); otherwise the same array */
__CPROVER_ensures(__CPROVER_old(vector->n_items) == __CPROVER_old(vector->n_items_alloc)
    ? (vector->n_items_alloc == __CPROVER_old(vector->n_items_alloc) + ORC_VECTOR_ITEM_CHUNK &&
       __CPROVER_is_fresh(vector->items, sizeof(void *) * vector->n_items_alloc))
    : (vector->n_items_alloc == __CPROVER_old(vector->n_items_alloc) && vector->items == __CPROVER_old(vector->items)))
__CPROVER_ensures(vector->items[vector->n_items - 1] == item);

#define HANDLER_CONTRACT(fn) \
static int fn (OrcParser *parser, const OrcLine *line) \
__CPROVER_requires(BUF_OK() && PARSER_OK(parser) && HLINE_OK(line) && parser->program != NULL) \
__CPROVER_assigns(parser->errors.items, parser->errors.n_items, parser->errors.n_items_alloc, parser->error_program; parser->errors.items != NULL: __CPROVER_object_whole(parser->errors.items); parser->program != NULL: __CPROVER_object_whole(parser->program)) \
__CPROVER_frees(parser->errors.items) \
__CPROVER_ensures(PARSER_OK(parser) && parser->program == __CPROVER_old(parser->program)) \
__CPROVER_ensures(parser->errors.n_items >= __CPROVER_old(parser->errors.n_items));

HANDLER_CONTRACT(orc_parse_handle_backup)
HANDLER_CONTRACT(orc_parse_handle_flags)
HANDLER_CONTRACT(orc_parse_handle_dotn)
HANDLER_CONTRACT(orc_parse_handle_dotm)
HANDLER_CONTRACT(orc_parse_handle_source)
HANDLER_CONTRACT(orc_parse_handle_dest)
HANDLER_CONTRACT(orc_parse_handle_accumulator)
HANDLER_CONTRACT(orc_parse_handle_constant_str)
HANDLER_CONTRACT(orc_parse_handle_temporary)
HANDLER_CONTRACT(orc_parse_handle_parameter)
HANDLER_CONTRACT(orc_parse_handle_parameter_int64)
HANDLER_CONTRACT(orc_parse_handle_parameter_float)
HANDLER_CONTRACT(orc_parse_handle_parameter_double)

/* an instruction line never removes instructions; at most one is appended */
static int orc_parse_handle_opcode (OrcParser *parser, const OrcLine *line)
__CPROVER_requires(BUF_OK() && PARSER_OK(parser) && HLINE_OK(line))
__CPROVER_assigns(parser->errors.items, parser->errors.n_items, parser->errors.n_items_alloc, parser->error_program; parser->errors.items != NULL: __CPROVER_object_whole(parser->errors.items); parser->program != NULL: __CPROVER_object_whole(parser->program))
__CPROVER_frees(parser->errors.items)
__CPROVER_ensures(PARSER_OK(parser) && parser->program == __CPROVER_old(parser->program))
__CPROVER_ensures(parser->errors.n_items >= __CPROVER_old(parser->errors.n_items))
__CPROVER_ensures(parser->program == NULL ==> (__CPROVER_return_value == 0 &&
                  (parser->enable_errors ==> parser->errors.n_items == __CPROVER_old(parser->errors.n_items) + 1)));

/* .init: the stored name is owned: NULL or a live string (never a freed pointer) */
static int orc_parse_handle_init (OrcParser *parser, const OrcLine *line)
__CPROVER_requires(BUF_OK() && PARSER_OK(parser) && HLINE_OK(line))
__CPROVER_requires(parser->init_function == NULL || __CPROVER_is_fresh(parser->init_function, 8))
__CPROVER_assigns(parser->errors.items, parser->errors.n_items, parser->errors.n_items_alloc, parser->error_program, parser->init_function; parser->errors.items != NULL: __CPROVER_object_whole(parser->errors.items))
__CPROVER_frees(parser->errors.items, parser->init_function)
__CPROVER_ensures(PARSER_OK(parser))
__CPROVER_ensures(parser->init_function == NULL || __CPROVER_r_ok(parser->init_function, 1))
__CPROVER_ensures(__CPROVER_return_value == 0 ==> parser->init_function == NULL);

/* .function: previous program sanity-checked, new program created and appended */
static void orc_parse_sanity_check (OrcParser *parser, OrcProgram *program)
__CPROVER_requires(PARSER_OK(parser) && PROGRAM_OK(program))
__CPROVER_assigns(parser->errors.items, parser->errors.n_items, parser->errors.n_items_alloc, parser->error_program, __CPROVER_object_whole(program); parser->errors.items != NULL: __CPROVER_object_whole(parser->errors.items))
__CPROVER_frees(parser->errors.items)
__CPROVER_ensures(PARSER_OK(parser) && PROGRAM_OK(program));

static int orc_parse_handle_function (OrcParser *parser, const OrcLine *line)
__CPROVER_requires(BUF_OK() && PARSER_OK(parser) && HLINE_OK(line))
__CPROVER_assigns(__CPROVER_object_whole(parser); parser->errors.items != NULL: __CPROVER_object_whole(parser->errors.items); parser->programs.items != NULL: __CPROVER_object_whole(parser->programs.items); parser->program != NULL: __CPROVER_object_whole(parser->program))
__CPROVER_frees(parser->errors.items, parser->programs.items)
__CPROVER_ensures(PARSER_OK(parser) && parser->program != NULL && parser->program->n_insns == 0)
__CPROVER_ensures(parser->programs.n_items == __CPROVER_old(parser->programs.n_items) + 1);

static int orc_parse_handle_directive (OrcParser *parser, const OrcLine *line)
__CPROVER_requires(BUF_OK() && PARSER_OK(parser) && HLINE_OK(line))
__CPROVER_assigns(__CPROVER_object_whole(parser); parser->errors.items != NULL: __CPROVER_object_whole(parser->errors.items); parser->programs.items != NULL: __CPROVER_object_whole(parser->programs.items); parser->program != NULL: __CPROVER_object_whole(parser->program))
__CPROVER_frees(parser->errors.items, parser->programs.items, parser->init_function)
__CPROVER_ensures(PARSER_OK(parser));

/* ---- harness state builders */
static void mk_vec(OrcVector *v) {
  int a = nondet_int(); __CPROVER_assume(a >= 0 && a <= 1000000);
  int n = nondet_int(); __CPROVER_assume(n >= 0 && n <= a);
  v->n_items_alloc = a; v->n_items = n;
  v->items = a ? malloc(sizeof(void *) * a) : NULL; __CPROVER_assume(a == 0 || v->items != NULL);
}
static OrcParser *mk_parser(void) {
  OrcParser *p = malloc(sizeof(*p)); __CPROVER_assume(p != NULL);
  mk_vec(&p->errors); mk_vec(&p->programs);
  if (nondet_bool()) { p->program = NULL; }
  else { p->program = malloc(sizeof(OrcProgram)); __CPROVER_assume(p->program != NULL); __CPROVER_assume(PROGRAM_COUNTS_OK(p->program)); }
  OrcOpcodeSet *s = malloc(sizeof(*s)); __CPROVER_assume(s != NULL);
  __CPROVER_assume(s->n_opcodes >= 0 && s->n_opcodes <= 300);
  s->opcodes = malloc(sizeof(OrcStaticOpcode) * s->n_opcodes); __CPROVER_assume(s->opcodes != NULL);
  p->opcode_set = s;
  if (nondet_bool()) p->init_function = NULL; else { p->init_function = malloc(8); __CPROVER_assume(p->init_function != NULL); p->init_function[7] = 0; }
  return p;
}
static OrcLine *mk_tok_line(void) {
  OrcLine *l = mk_line();
  __CPROVER_assume(l->n_tokens >= 1 && l->n_tokens <= ORC_LINE_MAX_TOKENS);
  for (int j = 0; j < ORC_LINE_MAX_TOKENS; j++) {
    long o = nondet_long(); __CPROVER_assume(o >= 0 && o <= g_len);
    l->tokens[j] = g_buf + o;
  }
  return l;
}
#define H_HANDLER(fn) void h_##fn(void) { OrcParser *p = mk_parser(); OrcLine *l = mk_tok_line(); fn(p, l); REACH(); }
H_HANDLER(orc_parse_handle_backup)
H_HANDLER(orc_parse_handle_flags)
H_HANDLER(orc_parse_handle_dotn)
H_HANDLER(orc_parse_handle_dotm)
H_HANDLER(orc_parse_handle_source)
H_HANDLER(orc_parse_handle_dest)
H_HANDLER(orc_parse_handle_accumulator)
H_HANDLER(orc_parse_handle_constant_str)
H_HANDLER(orc_parse_handle_temporary)
H_HANDLER(orc_parse_handle_parameter)
H_HANDLER(orc_parse_handle_parameter_int64)
H_HANDLER(orc_parse_handle_parameter_float)
H_HANDLER(orc_parse_handle_parameter_double)
H_HANDLER(orc_parse_handle_opcode)
H_HANDLER(orc_parse_handle_init)
H_HANDLER(orc_parse_handle_function)
H_HANDLER(orc_parse_handle_directive)
