/* Wrapper TU for orc/orcparse.c (property C14, C15): the real file is included verbatim; contracts are attached to
 * re-declarations; harnesses build arbitrary well-formed inputs. */
#include "stubs/prelude.h"
/* mechanically extracted copy of /repo/orc/orcparse.c, regenerated on every run by vlib/props/c14.py:gen_parse_source
 * (only change: variadic orc_parse_add_error -> non-variadic, arguments still evaluated) */
#include "/verif/out/gen/orcparse_nv.c"
#include "contracts/program_api.h"
#include "stubs/log_stub.c"

/* ---------------------------------------------------------------- ghost state */
/* Ghost description of the line buffer: g_buf has g_len+1 bytes and g_buf[g_len] == 0; LINE_OK ties line->end to
 * g_buf + g_len.  Per-function units quantify over arbitrary ghost values (global variables set by the harness: fast).
 * In the orc_parse_code unit, where the buffer changes on every iteration, the ghosts are DEFINED from the line
 * (-DGHOST_FROM_LINE): g_buf = line->end - offset(line->end), g_len = offset(line->end) -- an instance of the
 * arbitrary values the per-function proofs cover. */
#ifdef GHOST_FROM_LINE
#define g_len OFF(line->end)
#define g_buf ((char *)line->end - OFF(line->end))
#define GHOST_SET(l, buf, len) ((void)0)
#else
char *g_buf_var; long g_len_var;
#define g_buf g_buf_var
#define g_len g_len_var
#define GHOST_SET(l, buf, len) (g_buf_var = (buf), g_len_var = (len))
#endif
const char *g_code;   /* the source text: g_code_len+1 bytes, first NUL at g_code_len */
long g_code_len;

/* ---------------------------------------------------------------- assumed libc models (listed in evidence) */
/* strcmp/strtol/strtod on NUL-terminated strings: result abstracted (sound for safety/termination) */
int strcmp (const char *a, const char *b) { __CPROVER_assert(__CPROVER_r_ok(a, 1) && __CPROVER_r_ok(b, 1), "strcmp arguments are readable strings"); return nondet_int(); }
long strtol (const char *s, char **end, int base) { __CPROVER_assert(__CPROVER_r_ok(s, 1), "strtol argument is a readable string"); if (end) *end = (char *)s; return nondet_long(); }
double nondet_double(void);
double strtod (const char *s, char **end) {
  __CPROVER_assert(__CPROVER_r_ok(s, 1), "strtod argument is a readable string");
  if (end) { *end = (char *)s + (nondet_bool() ? 0 : 1); }   /* consumed nothing, or at least one character */
  return nondet_double();
}
int snprintf (char *buf, size_t size, const char *fmt, ...) {
  __CPROVER_assert(__CPROVER_w_ok(buf, size), "snprintf buffer");
  if (size > 0) { size_t k = nondet_ulong(); __CPROVER_assume(k < size); buf[k] = 0; }
  return nondet_int();
}
int vasprintf (char **strp, const char *fmt, __builtin_va_list ap) {
  if (nondet_bool()) return -1;
  size_t k = nondet_ulong(); __CPROVER_assume(k < 64);
  char *r = malloc(k + 1); __CPROVER_assume(r != NULL); r[k] = 0; *strp = r; return (int)k;
}
char *strdup (const char *s) {
  __CPROVER_assert(__CPROVER_r_ok(s, 1), "strdup argument is a readable string");
  size_t k = nondet_ulong(); __CPROVER_assume(k < 64);
  char *r = malloc(k + 1); __CPROVER_assume(r != NULL); r[k] = 0; return r;
}
/* strlen/strchr on the parser's source text: modelled through the ghost (first NUL of g_code is at g_code_len) */
size_t strlen (const char *s) {
  __CPROVER_assert(SAME(s, g_code) && OFF(s) >= 0 && OFF(s) <= g_code_len, "strlen on the source text");
  return (size_t)(g_code_len - OFF(s));
}
char *strchr (const char *s, int c) {
  __CPROVER_assert(SAME(s, g_code) && OFF(s) >= 0 && OFF(s) <= g_code_len, "strchr on the source text");
  if (nondet_bool()) return NULL;
  long k = nondet_long();
  __CPROVER_assume(k >= 0 && k <= g_code_len - OFF(s));   /* never beyond the first NUL */
  __CPROVER_assume(s[k] == (char)c);
  return (char *)s + k;
}
OrcOpcodeSet g_sys_set;
OrcOpcodeSet *orc_opcode_set_get (const char *name) { return nondet_bool() ? &g_sys_set : NULL; }

/* ---------------------------------------------------------------- predicates */
#define LINE_OK(l) ( \
   (l)->end == g_buf + g_len && __CPROVER_pointer_in_range_dfcc(g_buf, (l)->p, g_buf + g_len + 1) && \
   (l)->n_tokens >= 0 && (l)->n_tokens <= ORC_LINE_MAX_TOKENS )
#define TOK_OK(l, j) (SAME((l)->tokens[j], g_buf) && OFF((l)->tokens[j]) >= 0 && OFF((l)->tokens[j]) <= g_len)
#define BUF_OK() (g_len >= 0 && g_len <= 100000 && __CPROVER_rw_ok(g_buf, g_len + 1) && g_buf[g_len] == 0)

/* ---------------------------------------------------------------- token layer contracts */
static void orc_line_skip_blanks (OrcLine *line)
__CPROVER_requires(BUF_OK() && __CPROVER_rw_ok(line, sizeof(*line)) && LINE_OK(line) && OFF(line->p) <= g_len)
__CPROVER_assigns(line->p)
__CPROVER_ensures(LINE_OK(line) && OFF(line->p) <= g_len && OFF(line->p) >= __CPROVER_old(OFF(line->p)))
__CPROVER_ensures(line->p[0] != ' ' && line->p[0] != '\t');

static void orc_line_advance (OrcLine *line)
__CPROVER_requires(BUF_OK() && __CPROVER_rw_ok(line, sizeof(*line)) && LINE_OK(line) && OFF(line->p) <= g_len)
__CPROVER_assigns(line->p)
__CPROVER_ensures(LINE_OK(line) && OFF(line->p) <= g_len && OFF(line->p) >= __CPROVER_old(OFF(line->p)))
__CPROVER_ensures(line->p[0] == 0 || line->p[0] == ' ' || line->p[0] == '\t' || line->p[0] == ',');

/* the callee cannot know whether there is room: room is a precondition, the tokenizer loop must establish it */
static void orc_line_add_token (OrcLine *line)
__CPROVER_requires(BUF_OK() && __CPROVER_rw_ok(line, sizeof(*line)) && LINE_OK(line) && OFF(line->p) <= g_len)
__CPROVER_requires(line->n_tokens < ORC_LINE_MAX_TOKENS)
__CPROVER_assigns(line->p, line->n_tokens, line->tokens[line->n_tokens], __CPROVER_object_whole(g_buf))
__CPROVER_ensures(LINE_OK(line) && line->n_tokens == __CPROVER_old(line->n_tokens) + 1)
__CPROVER_ensures(OFF(line->p) > __CPROVER_old(OFF(line->p)))
__CPROVER_ensures(line->tokens[line->n_tokens - 1] == __CPROVER_old(line->p))
__CPROVER_ensures(g_buf[g_len] == 0 && line->p[-1] == 0);

long g_tk;   /* ghost token index */
static void orc_line_parse_tokens (OrcLine *line)
__CPROVER_requires(BUF_OK() && __CPROVER_rw_ok(line, sizeof(*line)) && LINE_OK(line) && line->n_tokens == 0)
__CPROVER_assigns(__CPROVER_object_whole(line), __CPROVER_object_whole(g_buf))
__CPROVER_ensures(line->end == __CPROVER_old(line->end))
__CPROVER_ensures(LINE_OK(line) && g_buf[g_len] == 0)
__CPROVER_ensures(line->n_tokens > 0 ==> TOK_OK(line, 0))
__CPROVER_ensures((0 <= g_tk && g_tk < line->n_tokens) ==> TOK_OK(line, g_tk));

/* arbitrary line state: buffer of symbolic length (unbounded up to the object cap), cursor anywhere */
static OrcLine *mk_line(void) {
  long len = nondet_long(); __CPROVER_assume(len >= 0 && len <= 100000);
  char *buf = malloc(len + 1); __CPROVER_assume(buf != NULL); buf[len] = 0;
  OrcLine *l = malloc(sizeof(*l)); __CPROVER_assume(l != NULL);
  long off = nondet_long(); __CPROVER_assume(off >= 0 && off <= len + 1);
  l->p = buf + off; l->end = buf + len;
  GHOST_SET(l, buf, len);
  return l;
}
void h_skip_blanks(void) { OrcLine *line = mk_line(); orc_line_skip_blanks(line); REACH(); }
void h_advance(void) { OrcLine *line = mk_line(); orc_line_advance(line); REACH(); }
void h_add_token(void) { OrcLine *line = mk_line(); orc_line_add_token(line); REACH(); }
void h_parse_tokens(void) { OrcLine *line = mk_line(); g_tk = nondet_long(); orc_line_parse_tokens(line); REACH(); }

/* ================================================================ parser state, errors, handlers */
#define VEC_OK(v) ((v)->n_items >= 0 && (v)->n_items <= (v)->n_items_alloc && (v)->n_items_alloc <= 1000032 && \
   ((v)->n_items_alloc == 0 || __CPROVER_rw_ok((v)->items, sizeof(void *) * (v)->n_items_alloc)))
#define OPSET_OK(s) (__CPROVER_r_ok((s), sizeof(OrcOpcodeSet)) && (s)->n_opcodes >= 0 && (s)->n_opcodes <= 300 && \
   __CPROVER_r_ok((s)->opcodes, sizeof(OrcStaticOpcode) * (s)->n_opcodes))
#define PARSER_OK(p) (__CPROVER_rw_ok((p), sizeof(OrcParser)) && VEC_OK(&(p)->errors) && VEC_OK(&(p)->programs) && \
   ((p)->program == NULL || PROGRAM_OK((p)->program)) && OPSET_OK((p)->opcode_set) && \
   ((p)->init_function == NULL || __CPROVER_r_ok((p)->init_function, 1)))
#define T_OK(l, j) ((j) >= (l)->n_tokens || TOK_OK(l, j))
#ifdef NO_TOK
#define HLINE_OK(l) (__CPROVER_r_ok((l), sizeof(OrcLine)) && (l)->n_tokens >= 1 && (l)->n_tokens <= ORC_LINE_MAX_TOKENS)
#else
#define HLINE_OK(l) (__CPROVER_r_ok((l), sizeof(OrcLine)) && (l)->n_tokens >= 1 && (l)->n_tokens <= ORC_LINE_MAX_TOKENS && \
   T_OK(l,0) && T_OK(l,1) && T_OK(l,2) && T_OK(l,3) && T_OK(l,4) && T_OK(l,5) && T_OK(l,6) && T_OK(l,7) && \
   T_OK(l,8) && T_OK(l,9) && T_OK(l,10) && T_OK(l,11) && T_OK(l,12) && T_OK(l,13) && T_OK(l,14) && T_OK(l,15))
#endif

/* The same predicates as lists of separate clauses: one big short-circuit conjunction makes dfcc's symbolic
 * execution superlinear (24 s vs 6 s for a handler), separate clauses are cheap. */
#define REQ_BUF __CPROVER_requires(g_len >= 0 && g_len <= 100000) __CPROVER_requires(__CPROVER_rw_ok(g_buf, g_len + 1)) __CPROVER_requires(g_buf[g_len] == 0)
#define PARSER_CLAUSES(K, p) K(__CPROVER_rw_ok((p), sizeof(OrcParser))) K(VEC_OK(&(p)->errors)) K(VEC_OK(&(p)->programs)) \
   K((p)->program == NULL || PROGRAM_OK((p)->program)) K(OPSET_OK((p)->opcode_set)) \
   K((p)->init_function == NULL || __CPROVER_r_ok((p)->init_function, 1))
#define REQ_PARSER(p) PARSER_CLAUSES(__CPROVER_requires, p)
#define ENS_PARSER(p) PARSER_CLAUSES(__CPROVER_ensures, p)
#define REQ_HLINE(l) __CPROVER_requires(__CPROVER_r_ok((l), sizeof(OrcLine))) __CPROVER_requires((l)->n_tokens >= 1 && (l)->n_tokens <= ORC_LINE_MAX_TOKENS) \
   __CPROVER_requires(T_OK(l,0)) __CPROVER_requires(T_OK(l,1)) __CPROVER_requires(T_OK(l,2)) __CPROVER_requires(T_OK(l,3)) \
   __CPROVER_requires(T_OK(l,4)) __CPROVER_requires(T_OK(l,5)) __CPROVER_requires(T_OK(l,6)) __CPROVER_requires(T_OK(l,7)) \
   __CPROVER_requires(T_OK(l,8)) __CPROVER_requires(T_OK(l,9)) __CPROVER_requires(T_OK(l,10)) __CPROVER_requires(T_OK(l,11)) \
   __CPROVER_requires(T_OK(l,12)) __CPROVER_requires(T_OK(l,13)) __CPROVER_requires(T_OK(l,14)) __CPROVER_requires(T_OK(l,15))

/* orcutils.c vector: contract (enforced on the real body in unit orc_vector_append) */
long g_vk;   /* ghost index into the vector */
/* replace-mode abstraction: after the call the items array is some valid array of n_items_alloc slots whose
 * last used slot holds the item (whether it was reallocated is not exposed; the release of the old array is
 * verified on the real body in unit orc_vector_append, not re-modelled here) */
void orc_vector_append (OrcVector *vector, void *item)
__CPROVER_requires(__CPROVER_rw_ok(vector, sizeof(*vector)))
__CPROVER_requires(VEC_OK(vector))
__CPROVER_assigns(vector->items, vector->n_items, vector->n_items_alloc)
__CPROVER_ensures(vector->n_items == __CPROVER_old(vector->n_items) + 1)
__CPROVER_ensures(vector->n_items_alloc >= vector->n_items && vector->n_items_alloc <= __CPROVER_old(vector->n_items_alloc) + ORC_VECTOR_ITEM_CHUNK)
__CPROVER_ensures(__CPROVER_is_fresh(vector->items, sizeof(void *) * vector->n_items_alloc))
__CPROVER_ensures(vector->items[vector->n_items - 1] == item);

/* error recording: appends exactly one record (contract enforced on the real body in unit orc_parse_add_error_valist) */
static void orc_parse_add_error_valist (OrcParser *parser, const char *format, va_list args)
__CPROVER_requires(__CPROVER_rw_ok(parser, sizeof(OrcParser)))
__CPROVER_requires(VEC_OK(&parser->errors))
__CPROVER_requires(parser->program == NULL || __CPROVER_r_ok(parser->program, sizeof(OrcProgram)))
__CPROVER_assigns(parser->errors.items, parser->errors.n_items, parser->errors.n_items_alloc, parser->error_program)
__CPROVER_ensures(parser->errors.n_items == __CPROVER_old(parser->errors.n_items) + 1)
__CPROVER_ensures(parser->errors.n_items_alloc >= parser->errors.n_items && parser->errors.n_items_alloc <= __CPROVER_old(parser->errors.n_items_alloc) + ORC_VECTOR_ITEM_CHUNK)
__CPROVER_ensures(__CPROVER_is_fresh(parser->errors.items, sizeof(void *) * parser->errors.n_items_alloc));

#define HANDLER_CONTRACT(fn) \
static int fn (OrcParser *parser, const OrcLine *line) \
REQ_BUF REQ_PARSER(parser) REQ_HLINE(line) __CPROVER_requires(parser->program != NULL) \
__CPROVER_assigns(parser->errors.items, parser->errors.n_items, parser->errors.n_items_alloc, parser->error_program; parser->errors.items != NULL: __CPROVER_object_whole(parser->errors.items); parser->program != NULL: __CPROVER_object_whole(parser->program)) \
ENS_PARSER(parser) __CPROVER_ensures(parser->program == __CPROVER_old(parser->program)) \
__CPROVER_ensures(parser->errors.n_items >= __CPROVER_old(parser->errors.n_items));

HANDLER_CONTRACT(orc_parse_handle_backup)
HANDLER_CONTRACT(orc_parse_handle_flags)
HANDLER_CONTRACT(orc_parse_handle_dotn)
HANDLER_CONTRACT(orc_parse_handle_dotm)
HANDLER_CONTRACT(orc_parse_handle_source)
HANDLER_CONTRACT(orc_parse_handle_dest)
HANDLER_CONTRACT(orc_parse_handle_accumulator)
HANDLER_CONTRACT(orc_parse_handle_constant_str)
HANDLER_CONTRACT(orc_parse_handle_temporary)
HANDLER_CONTRACT(orc_parse_handle_parameter)
HANDLER_CONTRACT(orc_parse_handle_parameter_int64)
HANDLER_CONTRACT(orc_parse_handle_parameter_float)
HANDLER_CONTRACT(orc_parse_handle_parameter_double)

/* opcode lookup: NULL or an entry of the parser's opcode table (enforced with a loop contract in unit orc_parse_find_opcode) */
static OrcStaticOpcode * orc_parse_find_opcode (OrcParser *parser, const char *opcode)
__CPROVER_requires(__CPROVER_r_ok(parser, sizeof(OrcParser)))
__CPROVER_requires(OPSET_OK(parser->opcode_set))
__CPROVER_requires(IS_STR(opcode))
__CPROVER_assigns()
__CPROVER_ensures(__CPROVER_return_value == NULL || (parser->opcode_set->n_opcodes > 0 &&
   __CPROVER_pointer_in_range_dfcc(parser->opcode_set->opcodes, __CPROVER_return_value, parser->opcode_set->opcodes + (parser->opcode_set->n_opcodes - 1))));

/* an instruction line never removes instructions; at most one is appended */
static int orc_parse_handle_opcode (OrcParser *parser, const OrcLine *line)
REQ_BUF REQ_PARSER(parser) REQ_HLINE(line)
__CPROVER_assigns(parser->errors.items, parser->errors.n_items, parser->errors.n_items_alloc, parser->error_program; parser->errors.items != NULL: __CPROVER_object_whole(parser->errors.items); parser->program != NULL: __CPROVER_object_whole(parser->program))
ENS_PARSER(parser) __CPROVER_ensures(parser->program == __CPROVER_old(parser->program))
__CPROVER_ensures(parser->errors.n_items >= __CPROVER_old(parser->errors.n_items))
__CPROVER_ensures(parser->program == NULL ==> (__CPROVER_return_value == 0 &&
                  (parser->enable_errors ==> parser->errors.n_items == __CPROVER_old(parser->errors.n_items) + 1)));

/* .init: the stored name is owned: NULL or a live string (never a freed pointer) */
static int orc_parse_handle_init (OrcParser *parser, const OrcLine *line)
REQ_BUF REQ_PARSER(parser) REQ_HLINE(line)
__CPROVER_requires(parser->init_function == NULL || __CPROVER_is_fresh(parser->init_function, 8))
__CPROVER_assigns(parser->errors.items, parser->errors.n_items, parser->errors.n_items_alloc, parser->error_program, parser->init_function; parser->errors.items != NULL: __CPROVER_object_whole(parser->errors.items))
__CPROVER_frees(parser->init_function)
ENS_PARSER(parser)
__CPROVER_ensures(parser->init_function == NULL || __CPROVER_r_ok(parser->init_function, 1))
__CPROVER_ensures(__CPROVER_return_value == 0 ==> parser->init_function == NULL);

/* .function: previous program sanity-checked, new program created and appended */
static void orc_parse_sanity_check (OrcParser *parser, OrcProgram *program)
REQ_PARSER(parser) __CPROVER_requires(PROGRAM_OK(program))
#ifdef API_OPAQUE
__CPROVER_assigns(parser->errors.items, parser->errors.n_items, parser->errors.n_items_alloc, parser->error_program)
#else
__CPROVER_assigns(parser->errors.items, parser->errors.n_items, parser->errors.n_items_alloc, parser->error_program, __CPROVER_object_whole(program); parser->errors.items != NULL: __CPROVER_object_whole(parser->errors.items))
#endif
__CPROVER_ensures(parser->errors.n_items >= __CPROVER_old(parser->errors.n_items))
__CPROVER_ensures(parser->errors.n_items_alloc >= parser->errors.n_items && parser->errors.n_items_alloc <= 1000032)
__CPROVER_ensures(__CPROVER_is_fresh(parser->errors.items, sizeof(void *) * (parser->errors.n_items_alloc > 0 ? parser->errors.n_items_alloc : 1)))
__CPROVER_ensures(PROGRAM_OK(program));

static int orc_parse_handle_function (OrcParser *parser, const OrcLine *line)
REQ_BUF REQ_PARSER(parser) REQ_HLINE(line)
__CPROVER_assigns(__CPROVER_object_whole(parser); parser->errors.items != NULL: __CPROVER_object_whole(parser->errors.items); parser->programs.items != NULL: __CPROVER_object_whole(parser->programs.items); parser->program != NULL: __CPROVER_object_whole(parser->program))
ENS_PARSER(parser) __CPROVER_ensures(parser->program != NULL && parser->program->n_insns == 0)
__CPROVER_ensures(parser->programs.n_items == __CPROVER_old(parser->programs.n_items) + 1);

static int orc_parse_handle_directive (OrcParser *parser, const OrcLine *line)
REQ_BUF REQ_PARSER(parser) REQ_HLINE(line)
__CPROVER_assigns(__CPROVER_object_whole(parser); parser->errors.items != NULL: __CPROVER_object_whole(parser->errors.items); parser->programs.items != NULL: __CPROVER_object_whole(parser->programs.items); parser->program != NULL: __CPROVER_object_whole(parser->program))
__CPROVER_frees(parser->init_function)
__CPROVER_ensures(PARSER_OK(parser));

/* ---- harness state builders */
static void mk_vec(OrcVector *v) {
  int a = nondet_int(); __CPROVER_assume(a >= 0 && a <= 1000000);
  int n = nondet_int(); __CPROVER_assume(n >= 0 && n <= a);
  v->n_items_alloc = a; v->n_items = n;
  v->items = a ? malloc(sizeof(void *) * a) : NULL; __CPROVER_assume(a == 0 || v->items != NULL);
}
static OrcParser *mk_parser(void) {
  OrcParser *p = malloc(sizeof(*p)); __CPROVER_assume(p != NULL);
  mk_vec(&p->errors); mk_vec(&p->programs);
  if (nondet_bool()) { p->program = NULL; }
  else { p->program = malloc(sizeof(OrcProgram)); __CPROVER_assume(p->program != NULL); __CPROVER_assume(PROGRAM_COUNTS_OK(p->program)); }
  OrcOpcodeSet *s = malloc(sizeof(*s)); __CPROVER_assume(s != NULL);
  __CPROVER_assume(s->n_opcodes >= 0 && s->n_opcodes <= 300);
  s->opcodes = malloc(sizeof(OrcStaticOpcode) * s->n_opcodes); __CPROVER_assume(s->opcodes != NULL);
  p->opcode_set = s;
  if (nondet_bool()) p->init_function = NULL; else { p->init_function = malloc(8); __CPROVER_assume(p->init_function != NULL); p->init_function[7] = 0; }
  return p;
}
static OrcLine *mk_tok_line(void) {
  OrcLine *l = mk_line();
#ifndef TOKMAX
#define TOKMAX ORC_LINE_MAX_TOKENS
#endif
  __CPROVER_assume(l->n_tokens >= 1 && l->n_tokens <= TOKMAX);
  for (int j = 0; j < ORC_LINE_MAX_TOKENS; j++) {
#ifdef TOK_ALIAS
    /* all token pointers alias one arbitrary in-buffer position: every function that receives a token here is a stub whose
     * behaviour depends only on the pointer being readable, so any run with distinct tokens is matched by an aliased run */
    static long o_alias = -1; if (o_alias < 0) { o_alias = nondet_long(); __CPROVER_assume(o_alias >= 0 && o_alias <= OFF(l->end)); }
    l->tokens[j] = (char *)l->end - o_alias;
#else
    long o = nondet_long(); __CPROVER_assume(o >= 0 && o <= OFF(l->end));
    l->tokens[j] = (char *)l->end - o;
#endif
  }
  return l;
}
#define H_HANDLER(fn) void h_##fn(void) { OrcParser *p = mk_parser(); OrcLine *l = mk_tok_line(); fn(p, l); REACH(); }
H_HANDLER(orc_parse_handle_backup)
H_HANDLER(orc_parse_handle_flags)
H_HANDLER(orc_parse_handle_dotn)
H_HANDLER(orc_parse_handle_dotm)
H_HANDLER(orc_parse_handle_source)
H_HANDLER(orc_parse_handle_dest)
H_HANDLER(orc_parse_handle_accumulator)
H_HANDLER(orc_parse_handle_constant_str)
H_HANDLER(orc_parse_handle_temporary)
H_HANDLER(orc_parse_handle_parameter)
H_HANDLER(orc_parse_handle_parameter_int64)
H_HANDLER(orc_parse_handle_parameter_float)
H_HANDLER(orc_parse_handle_parameter_double)
H_HANDLER(orc_parse_handle_opcode)
H_HANDLER(orc_parse_handle_init)
H_HANDLER(orc_parse_handle_function)
H_HANDLER(orc_parse_handle_directive)

/* ================================================================ error recording (real body) */
void h_orc_parse_add_error_valist(void) {
  OrcParser *p = mk_parser(); va_list ap;
  orc_parse_add_error_valist(p, "fmt", ap);
  REACH();
}

/* ================================================================ line layer */
#define CODE_OK() (g_code_len >= 0 && g_code_len <= 100000 && __CPROVER_r_ok(g_code, g_code_len + 1) && g_code[g_code_len] == 0)
#define CUR_OK(q) ((q)->code == g_code && (q)->code_length == g_code_len && __CPROVER_pointer_in_range_dfcc(g_code, (q)->p, g_code + g_code_len))

static void orc_parse_find_line_length (OrcParser *parser)
__CPROVER_requires(__CPROVER_rw_ok(parser, sizeof(OrcParser)))
__CPROVER_requires(CODE_OK())
__CPROVER_requires(CUR_OK(parser))
__CPROVER_assigns(parser->line_length)
__CPROVER_ensures(parser->line_length >= 0 && OFF(parser->p) + parser->line_length <= g_code_len)
/* an empty line is only reported at a line terminator or at the end of the text (progress of the main loop) */
__CPROVER_ensures(parser->line_length == 0 ==> (parser->p[0] == 0 || parser->p[0] == '\n' || parser->p[0] == '\r'));

static void orc_parse_advance (OrcParser *parser)
__CPROVER_requires(__CPROVER_rw_ok(parser, sizeof(OrcParser)))
__CPROVER_requires(CODE_OK())
__CPROVER_requires(CUR_OK(parser))
__CPROVER_requires(parser->line_length >= 0 && OFF(parser->p) + parser->line_length <= g_code_len)
__CPROVER_assigns(parser->p)
__CPROVER_ensures(CUR_OK(parser))
__CPROVER_ensures(OFF(parser->p) >= __CPROVER_old(OFF(parser->p)) + parser->line_length)
__CPROVER_ensures((parser->line_length == 0 && (__CPROVER_old(parser->p[0]) == '\n' || __CPROVER_old(parser->p[0]) == '\r'))
                  ==> OFF(parser->p) == __CPROVER_old(OFF(parser->p)) + 1);

char * _strndup (const char *s, int n)
__CPROVER_requires(n >= 0 && n <= 100000 && __CPROVER_r_ok(s, n))
__CPROVER_assigns()
__CPROVER_ensures(__CPROVER_is_fresh(__CPROVER_return_value, n + 1))
__CPROVER_ensures(__CPROVER_return_value[n] == 0);

/* one line is taken: fresh NUL-terminated copy, line number incremented, cursor strictly advances unless at the end */
static void orc_parse_get_line (OrcParser *parser)
__CPROVER_requires(__CPROVER_rw_ok(parser, sizeof(OrcParser)))
__CPROVER_requires(CODE_OK())
__CPROVER_requires(CUR_OK(parser))
__CPROVER_requires(parser->line == NULL || __CPROVER_is_fresh(parser->line, 1))
__CPROVER_requires(parser->line_number >= 0 && parser->line_number <= 200000)
__CPROVER_assigns(parser->p, parser->line, parser->line_length, parser->line_number)
__CPROVER_frees(parser->line)
__CPROVER_ensures(CUR_OK(parser))
__CPROVER_ensures(parser->line_length >= 0 && parser->line_length <= 100000)
__CPROVER_ensures(__CPROVER_is_fresh(parser->line, parser->line_length + 1) && parser->line[parser->line_length] == 0)
__CPROVER_ensures(parser->line_number == __CPROVER_old(parser->line_number) + 1)
__CPROVER_ensures(__CPROVER_old(parser->p[0]) != 0 ==> OFF(parser->p) > __CPROVER_old(OFF(parser->p)));

static OrcParser *mk_cursor_parser(void) {
  OrcParser *p = mk_parser();
  g_code_len = nondet_long(); __CPROVER_assume(g_code_len >= 0 && g_code_len <= 100000);
  char *c = malloc(g_code_len + 1); __CPROVER_assume(c != NULL); c[g_code_len] = 0;
  g_code = c;
  long off = nondet_long(); __CPROVER_assume(off >= 0 && off <= g_code_len);
  p->code = g_code; p->code_length = (int)g_code_len; p->p = g_code + off;
  if (nondet_bool()) p->line = NULL; else { p->line = malloc(1); __CPROVER_assume(p->line != NULL); }
  return p;
}
void h_find_line_length(void) { OrcParser *p = mk_cursor_parser(); orc_parse_find_line_length(p); REACH(); }
void h_parse_advance(void) { OrcParser *p = mk_cursor_parser(); orc_parse_advance(p); REACH(); }
void h_get_line(void) { OrcParser *p = mk_cursor_parser(); orc_parse_get_line(p); REACH(); }

/* ================================================================ .function and the dispatcher */
void h_orc_parse_handle_function2(void) { OrcParser *p = mk_parser(); OrcLine *l = mk_tok_line(); orc_parse_handle_function(p, l); REACH(); }

void h_find_opcode(void) { OrcParser *p = mk_parser(); OrcLine *l = mk_tok_line(); orc_parse_find_opcode(p, l->tokens[0]); REACH(); }
