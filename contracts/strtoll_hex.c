/* C15, number parsing at full width: a literal "0x" + 16 hexadecimal digits denotes exactly that 64-bit value and is
 * consumed completely (so that orc_program_add_constant_str takes the integer path, not the float path).
 * assume/assert form around the real _strtoll; the base is concrete on this path, which keeps the overflow guard's
 * division and multiplication constant-by-constant.  Companion of the bounded general unit in contracts/parse15.c. */
#include "stubs/prelude.h"
#include <orc/orc.h>
#include <ctype.h>
/* glibc's isspace() reads a locale table through __ctype_b_loc(): C locale model */
const unsigned short **__ctype_b_loc (void) {
  unsigned short *t = calloc(384, sizeof(unsigned short)); const unsigned short **pp = malloc(sizeof(*pp));
  __CPROVER_assume(t != NULL && pp != NULL);
  t[128 + ' '] = _ISspace; t[128 + '\t'] = _ISspace; t[128 + '\n'] = _ISspace; t[128 + '\v'] = _ISspace; t[128 + '\f'] = _ISspace; t[128 + '\r'] = _ISspace;
  *pp = t + 128; return pp;
}
#include "/repo/orc/orcutils.c"
#include "stubs/log_stub.c"

static int hexval (char c) { if (c >= '0' && c <= '9') return c - '0'; if (c >= 'a' && c <= 'f') return 10 + c - 'a'; if (c >= 'A' && c <= 'F') return 10 + c - 'A'; return -1; }
void hp_strtoll_hex16 (void)
{
  char *s = malloc (20); __CPROVER_assume (s != NULL);
  s[0] = '0'; s[1] = nondet_bool () ? 'x' : 'X'; s[18] = 0; s[19] = 0;
  orc_uint64 want = 0;
  for (int i = 2; i < 18; i++) { int d = hexval (s[i]); __CPROVER_assume (d >= 0); want = (want << 4) | (orc_uint64) d; }
  char *end;
  orc_int64 got = _strtoll (s, &end, 0);
  __CPROVER_assert ((orc_uint64) got == want, "postcondition: 0x + 16 hex digits denotes that 64-bit value (bit 63 included)");
  __CPROVER_assert (end == s + 18, "postcondition: the literal is consumed completely");
  REACH ();
}
