#!/bin/bash
# apply a seeded patch to /repo, run a check subset, revert.  usage: tools_seed_run.sh <seed dir> <prop> [only-regex]
d=/verif/seeded/$1; prop=$2; only=$3
pf=$d/patch.diff; [ -f $d/patch_adapted.diff ] && pf=$d/patch_adapted.diff; cd /repo && git apply $pf || { echo "patch does not apply"; exit 2; }
cd /verif
if [ -n "$only" ]; then ./check $prop --only "$only" > /var/tmp/seedrun_$1.log 2>&1; else ./check $prop > /var/tmp/seedrun_$1.log 2>&1; fi
rc=$?
git -C /repo checkout -- . 
echo "seed $1 on $prop: exit=$rc"; grep -E "^VIOLATION|^C[0-9]+:|^UNDECIDED" /var/tmp/seedrun_$1.log | cut -c1-400
