# Independent ISA-level classification of every OrcX86OpcodeIdx enumerator, written from the Intel SDM vol. 2
# (instruction reference, "CPUID feature flag" column), NOT from orc's tables.
#
# For each enumerator: the instruction-set extension needed by
#   xmm : the legacy (non-VEX) encoding with XMM operands       (SSE target)
#   mm  : the legacy encoding with MM operands                   (MMX target)
#   v128: the VEX.128 encoding                                   (AVX target)
#   v256: the VEX.256 encoding                                   (AVX target)
# Values: GP (no SIMD requirement), MMX, MMXEXT (the SSE integer extensions on MM registers, also in AMD MMXEXT),
# SSE, SSE2, SSE3, SSSE3, SSE41, SSE42, AVX, AVX2, NA (no such encoding exists: emitting it is always wrong).

GP, MMX, MMXEXT, SSE, SSE2, SSE3, SSSE3, SSE41, SSE42, AVX, AVX2, NA = (
    'GP', 'MMX', 'MMXEXT', 'SSE', 'SSE2', 'SSE3', 'SSSE3', 'SSE41', 'SSE42', 'AVX', 'AVX2', 'NA')

BITS = {GP: 0, MMX: 1, MMXEXT: 2, SSE: 4, SSE2: 8, SSE3: 16, SSSE3: 32, SSE41: 64, SSE42: 128, AVX: 256, AVX2: 512,
        NA: 1024}

T = {}


def put(names, xmm, mm, v128, v256):
    for n in names.split():
        assert n not in T, n
        T[n] = (xmm, mm, v128, v256)


# --- integer SIMD present since MMX; XMM form since SSE2; VEX.128 = AVX, VEX.256 = AVX2
put('punpcklbw punpcklwd punpckldq packsswb pcmpgtb pcmpgtw pcmpgtd packuswb punpckhbw punpckhwd punpckhdq packssdw '
    'psraw psrlw psllw psrad psrld pslld psrlq psllq pcmpeqb pcmpeqw pcmpeqd pmullw psubusb psubusw pand paddusb '
    'paddusw pandn pmulhw psubsb psubsw por paddsb paddsw pxor pmaddwd psubb psubw psubd paddb paddw paddd '
    'psraw_imm psrlw_imm psllw_imm psrad_imm psrld_imm pslld_imm psrlq_imm psllq_imm psrlq_reg',
    SSE2, MMX, AVX, AVX2)
# --- integer ops added with SSE (MMXEXT) on MM registers; XMM form SSE2
put('pminub pmaxub pavgb pavgw pmulhuw pminsw pmaxsw psadbw', SSE2, MMXEXT, AVX, AVX2)
# --- SSE2 additions that also have an MM form (CPUID.SSE2)
put('paddq psubq pmuludq', SSE2, SSE2, AVX, AVX2)
# --- XMM only
put('punpcklqdq punpckhqdq psrldq pslldq psrldq_imm pslldq_imm pshufd pshuflw pshufhw', SSE2, NA, AVX, AVX2)
# movdqa index 14 is emitted as MOVQ mm,mm (0F 6F) with MM operands and MOVDQA (66 0F 6F) with XMM operands
put('movdqa', SSE2, MMX, AVX, AVX)
# --- SSSE3 (MM and XMM forms)
put('pshufb phaddw phaddd phaddsw pmaddubsw phsubw phsubd phsubsw psignb psignw psignd pmulhrsw pabsb pabsw pabsd '
    'palignr', SSSE3, SSSE3, AVX, AVX2)
# --- SSE4.1 (XMM only)
put('pmovsxbw pmovsxbd pmovsxbq pmovsxwd pmovsxwq pmovsxdq pmuldq pcmpeqq packusdw pmovzxbw pmovzxbd pmovzxbq '
    'pmovzxwd pmovzxwq pmovzxdq pmulld pminsb pminsd pminuw pminud pmaxsb pmaxsd pmaxuw pmaxud',
    SSE41, NA, AVX, AVX2)
put('phminposuw', SSE41, NA, AVX, NA)
put('pcmpgtq', SSE42, NA, AVX, AVX2)
# --- floating point: ps = SSE, pd / conversions = SSE2; no MM form; VEX = AVX at both widths
put('addps subps mulps divps sqrtps cmpeqps cmpltps cmpleps minps maxps shufps_imm andps orps', SSE, NA, AVX, AVX)
put('addpd subpd mulpd divpd sqrtpd cmpeqpd cmpltpd cmplepd minpd maxpd cvttps2dq cvttpd2dq cvtdq2ps cvtdq2pd '
    'cvtps2pd cvtpd2ps', SSE2, NA, AVX, AVX)
# --- insert / extract
put('pinsrw', SSE2, MMXEXT, AVX, NA)       # 0F C4
put('pinsrb pinsrd', SSE41, NA, AVX, NA)   # 66 0F 3A 20 / 22
put('pextrb pextrw', SSE41, NA, AVX, NA)   # orc uses the 66 0F 3A 14 / 15 store encodings (SSE4.1); no MM form
# --- moves
put('movd_load movd_store', SSE2, MMX, AVX, NA)          # 0F 6E / 7E (66 prefix for XMM)
put('movq_sse_load movq_sse_store', SSE2, NA, AVX, NA)   # F3 0F 7E / 66 0F D6
put('movdqa_load movdqu_load movdqa_store movdqu_store movntdq_store', SSE2, NA, AVX, AVX)
put('movhps_load', SSE, NA, AVX, NA)
put('movq_mmx_load movq_mmx_store', NA, MMX, NA, NA)     # 0F 6F / 7F without prefix
put('pshufw', NA, MMXEXT, NA, NA)                        # 0F 70 without prefix: MM only
put('ldmxcsr stmxcsr', SSE, SSE, AVX, NA)
put('emms', MMX, MMX, MMX, MMX)
put('blendvpd_sse', SSE41, NA, NA, NA)
# --- VEX-only entries
put('insertf128_avx extractf128_avx permute2f128_avx', NA, NA, NA, AVX)
put('blendpd_avx blendvpd_avx', NA, NA, AVX, AVX)
put('pbroadcastb_avx pbroadcastw_avx pbroadcastd_avx pbroadcastq_avx', NA, NA, AVX2, AVX2)
put('permute4x64_imm_avx permute2i128_avx', NA, NA, NA, AVX2)
put('pblendd_avx', NA, NA, AVX2, AVX2)
put('zeroupper_avx', NA, NA, AVX, AVX)
# --- general purpose / pseudo
put('add_imm8_rm add_imm32_rm add_rm_r add_r_rm or_imm8_rm or_imm32_rm or_rm_r or_r_rm adc_imm8_rm adc_imm32_rm '
    'adc_rm_r adc_r_rm sbb_imm8_rm sbb_imm32_rm sbb_rm_r sbb_r_rm and_imm8_rm and_imm32_rm and_rm_r and_r_rm '
    'sub_imm8_rm sub_imm32_rm sub_rm_r sub_r_rm xor_imm8_rm xor_imm32_rm xor_rm_r xor_r_rm cmp_imm8_rm cmp_imm32_rm '
    'cmp_rm_r cmp_r_rm jo jno jc jnc jz jnz jbe ja js jns jp jnp jl jge jle jg jmp LABEL ret retq rdtsc nop '
    'rep_movsb rep_movsw rep_movsl push pop movzx_rm_r movw_rm_r movl_rm_r mov_rm_r mov_imm32_r movb_r_rm movw_r_rm '
    'movl_r_rm mov_r_rm test test_imm leal leaq imul_rm_r imul_rm inc dec sar_imm sar and_imm32_a ALIGN endbr32 '
    'endbr64', GP, GP, GP, GP)


def enum_names(header='/repo/orc/orcx86insn.h'):
    import re
    s = open(header).read()
    m = re.search(r'typedef enum\s*\{([^}]*)\}\s*OrcX86OpcodeIdx', s)
    if not m:
        raise RuntimeError('OrcX86OpcodeIdx enum not found')
    out = []
    for item in m.group(1).split(','):
        item = re.sub(r'/\*.*?\*/', '', item, flags=re.S).strip()
        if not item:
            continue
        if '=' in item:
            raise RuntimeError('explicit enumerator value: ' + item)
        if not item.startswith('ORC_X86_'):
            raise RuntimeError('unexpected enumerator ' + item)
        out.append(item[len('ORC_X86_'):])
    return out


def gen_header():
    """C text: NEED_* bits and the four classification functions, keyed by enumerator name."""
    names = enum_names()
    missing = [n for n in names if n not in T]
    if missing:
        raise RuntimeError('x86isa.py has no entry for enumerator(s): %s' % missing)
    o = ['/* generated by spec/x86isa.py -- do not edit */']
    for k, v in BITS.items():
        o.append('#define NEED_%s %du' % (k, v))
    for col, fn in enumerate(('isa_need_xmm', 'isa_need_mm', 'isa_need_v128', 'isa_need_v256')):
        o.append('static unsigned %s(int idx) {\n  switch (idx) {' % fn)
        for n in names:
            o.append('  case ORC_X86_%s: return NEED_%s;' % (n, T[n][col]))
        o.append('  default: return NEED_NA;\n  }\n}')
    return '\n'.join(o) + '\n'
