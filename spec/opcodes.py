# SPEC table for the Orc sys opcodes, written from the property statements (C02, C18) and
# doc/opcode_table.xml -- NOT derived from orc/opcodes.h or the emulator.
#
# Every spec is a function from C expression strings (operands as *unsigned* values of their
# width: unsigned char/short/int/long) to a C expression string whose value, truncated to the
# unsigned destination width, is the required destination element.  Only builtin type names are
# used, no macros: the same text is pasted into function contracts, loop invariants (parsed
# stand-alone by goto-instrument) and the native replay program (compiled by gcc).
#
# Reference errata (places where doc/opcode_table.xml is visibly inconsistent with itself or
# with the property statement; the spec follows the statement / the consistent reading, and the
# erratum is listed in evidence, the documentation is not "enforced"):
ERRATA = [
    "andn*: table prints 'a & (~b)'; every user and every back end computes '(~a) & b' (x86 pandn); spec uses (~a)&b",
    "mulhsl/mulhul: table prints '(a*b)>>16'; statement says 'high half' => >>32",
    "ldresnear*: table prints '(b+c*i)>>8'; fixed point is 16.16 (ldreslin uses >>16 and 8 fraction bits) => >>16",
    "cmpltf/cmplef/cmpltd/cmpled: table pseudo-code is a copy of cmpeq; descriptions ('less than', 'less than or equal') are used",
    "split*: 'split first/second' does not say which destination gets which; convention: d1 = second (high) half, d2 = first (low) half, the inverse of merge*(d2,d1)",
    "divluw: quotient for a zero divisor byte is not defined in the table; 'saturated' => 255",
    "convwf: listed without description; not specified, frame/memory safety only",
]

UT = {1: 'unsigned char', 2: 'unsigned short', 4: 'unsigned int', 8: 'unsigned long'}
ST = {1: 'signed char', 2: 'short', 4: 'int', 8: 'long'}
SMAX = {1: '127', 2: '32767', 4: '2147483647L'}
SMIN = {1: '(-128)', 2: '(-32768)', 4: '(-2147483648L)'}
UMAX = {1: '255', 2: '65535', 4: '4294967295L'}
WIDE = {1: 'int', 2: 'int', 4: 'long'}
SUF = {1: 'b', 2: 'w', 4: 'l', 8: 'q'}


def sx(sz, x):
    """signed value of an unsigned sz-byte operand, in a wider signed type"""
    if sz == 8:
        return '((long)(%s))' % x
    return '((%s)(%s)(%s))' % (WIDE[sz], ST[sz], x)


def zx(sz, x):
    """unsigned value in a wider signed type (non-negative)"""
    if sz == 8:
        return '((unsigned long)(%s))' % x
    return '((%s)(%s)(%s))' % (WIDE[sz], UT[sz], x)


def clamp(x, lo, hi):
    return '((%s) < %s ? %s : ((%s) > %s ? %s : (%s)))' % (x, lo, lo, x, hi, hi, x)


class Op:
    def __init__(self, name, dsz, ssz, spec=None, kind='arith', scalar=(), isfloat=False, note='',
                 pre=None, hard=False, nan_arith=False, nsrc_nan=0):
        self.name = name
        self.dsz = list(dsz)
        self.ssz = list(ssz)
        self.spec = spec
        self.kind = kind
        self.scalar = set(scalar)     # indices of scalar (parameter/constant) sources
        self.isfloat = isfloat
        self.note = note
        self.pre = pre                # extra precondition: function of scalar exprs -> C text
        self.hard = hard              # needs the multiply-capable back end first
        self.nan_arith = nan_arith


OPS = {}


def add(op):
    assert op.name not in OPS, op.name
    OPS[op.name] = op


# ---------------------------------------------------------------- integer opcodes, sizes 1,2,4
for sz in (1, 2, 4):
    f = SUF[sz]
    W = WIDE[sz]

    def mk(sz=sz, W=W):
        S = lambda x: sx(sz, x)
        Z = lambda x: zx(sz, x)
        d = {}
        d['abs'] = lambda a: '(%s < 0 ? -%s : %s)' % (S(a), S(a), S(a))
        d['add'] = lambda a, b: '(%s + %s)' % (Z(a), Z(b))
        d['addss'] = lambda a, b: clamp('(%s + %s)' % (S(a), S(b)), SMIN[sz], SMAX[sz])
        d['addus'] = lambda a, b: clamp('(%s + %s)' % (Z(a), Z(b)), '0', UMAX[sz])
        d['and'] = lambda a, b: '((%s) & (%s))' % (a, b)
        d['andn'] = lambda a, b: '((~(%s)) & (%s))' % (a, b)
        d['avgs'] = lambda a, b: '((%s + %s + 1) >> 1)' % (S(a), S(b))
        d['avgu'] = lambda a, b: '((%s + %s + 1) >> 1)' % (Z(a), Z(b))
        d['cmpeq'] = lambda a, b: '(((%s) == (%s)) ? -1 : 0)' % (a, b)
        d['cmpgts'] = lambda a, b: '((%s > %s) ? -1 : 0)' % (S(a), S(b))
        d['copy'] = lambda a: '(%s)' % a
        d['maxs'] = lambda a, b: '(%s > %s ? %s : %s)' % (S(a), S(b), S(a), S(b))
        d['maxu'] = lambda a, b: '(%s > %s ? %s : %s)' % (Z(a), Z(b), Z(a), Z(b))
        d['mins'] = lambda a, b: '(%s < %s ? %s : %s)' % (S(a), S(b), S(a), S(b))
        d['minu'] = lambda a, b: '(%s < %s ? %s : %s)' % (Z(a), Z(b), Z(a), Z(b))
        # low half of the product: identical for the signed and the unsigned reading of the operands
        d['mull'] = lambda a, b: '(%s * %s)' % (S(a), S(b)) if sz < 4 else '((unsigned int)(%s) * (unsigned int)(%s))' % (a, b)
        d['mulhs'] = lambda a, b: '((%s * %s) >> %d)' % (S(a), S(b), 8 * sz)
        d['mulhu'] = lambda a, b: ('(((unsigned int)(%s) * (unsigned int)(%s)) >> %d)' % (a, b, 8 * sz)) if sz < 4 else \
            '(((unsigned long)(%s) * (unsigned long)(%s)) >> 32)' % (a, b)
        d['or'] = lambda a, b: '((%s) | (%s))' % (a, b)
        d['xor'] = lambda a, b: '((%s) ^ (%s))' % (a, b)
        d['sign'] = lambda a: '(%s > 0 ? 1 : (%s < 0 ? -1 : 0))' % (S(a), S(a))
        d['sub'] = lambda a, b: '(%s - %s)' % (Z(a), Z(b))
        d['subss'] = lambda a, b: clamp('(%s - %s)' % (S(a), S(b)), SMIN[sz], SMAX[sz])
        d['subus'] = lambda a, b: clamp('(%s - %s)' % (Z(a), Z(b)), '0', UMAX[sz])
        # shifts: b is the scalar operand, required 0 <= b < width
        d['shl'] = lambda a, b: '(%s << (%s))' % (('((unsigned long)(%s))' % a), b)
        d['shrs'] = lambda a, b: '(%s >> (%s))' % (S(a), b)
        d['shru'] = lambda a, b: '(%s >> (%s))' % (Z(a), b)
        return d
    D = mk()
    for base in ('abs', 'copy', 'sign'):
        add(Op(base + f, [sz], [sz], D[base]))
    for base in ('add', 'addss', 'addus', 'and', 'andn', 'avgs', 'avgu', 'cmpeq', 'cmpgts', 'maxs', 'maxu', 'mins',
                 'minu', 'or', 'xor', 'sub', 'subss', 'subus'):
        add(Op(base + f, [sz], [sz, sz], D[base]))
    for base in ('mull', 'mulhs', 'mulhu'):
        add(Op(base + f, [sz], [sz, sz], D[base], hard=(sz == 4)))
    for base in ('shl', 'shrs', 'shru'):
        add(Op(base + f, [sz], [sz, sz], D[base], scalar=[1],
               pre=(lambda sz: (lambda s: '(%s) >= 0 && (%s) < %d' % (s[1], s[1], 8 * sz)))(sz)))
    add(Op('load' + f, [sz], [sz], lambda a: '(%s)' % a, kind='load'))
    add(Op('loadoff' + f, [sz], [sz, 4], lambda a: '(%s)' % a, kind='loadoff', scalar=[1]))
    add(Op('loadp' + f, [sz], [sz], lambda a: '(%s)' % a, kind='loadp', scalar=[0]))
    add(Op('store' + f, [sz], [sz], lambda a: '(%s)' % a, kind='store'))

add(Op('loadupdb', [1], [1], lambda a: '(%s)' % a, kind='loadupd'))
# loadupib: (array[i>>1] + array[(i+1)>>1] + 1)>>1 on unsigned bytes; a = array[i>>1], b = array[(i+1)>>1]
add(Op('loadupib', [1], [1], lambda a, b: '((%s + %s + 1) >> 1)' % (zx(1, a), zx(1, b)), kind='loadupi'))
add(Op('ldresnearb', [1], [1, 4, 4], lambda a: '(%s)' % a, kind='ldresnear', scalar=[1, 2]))
add(Op('ldresnearl', [4], [4, 4, 4], lambda a: '(%s)' % a, kind='ldresnear', scalar=[1, 2]))


def _lin8(a, b, fr):
    return '(((%s) * (256 - (%s)) + (%s) * (%s)) >> 8)' % (zx(1, a), fr, zx(1, b), fr)


add(Op('ldreslinb', [1], [1, 4, 4], lambda a, b, fr: _lin8(a, b, fr), kind='ldreslin', scalar=[1, 2]))


def _lin32(a, b, fr):
    parts = []
    for k in range(4):
        ak = '(((%s) >> %d) & 255)' % (a, 8 * k)
        bk = '(((%s) >> %d) & 255)' % (b, 8 * k)
        parts.append('((unsigned int)((((int)%s * (256 - (%s)) + (int)%s * (%s)) >> 8) & 255) << %d)' % (ak, fr, bk, fr, 8 * k))
    return '(' + ' | '.join(parts) + ')'


add(Op('ldreslinl', [4], [4, 4, 4], _lin32, kind='ldreslin', scalar=[1, 2]))

add(Op('div255w', [2], [2], lambda a: '(%s / 255)' % zx(2, a)))
add(Op('divluw', [2], [2, 2],
       lambda a, b: '(((%s) & 255) == 0 ? 255 : %s)' % (b, clamp('(%s / ((%s & 255) == 0 ? 1 : (%s & 255)))' % (zx(2, a), zx(2, b), zx(2, b)), '0', '255'))))

# ---------------------------------------------------------------- 64-bit
add(Op('loadq', [8], [8], lambda a: '(%s)' % a, kind='load'))
add(Op('loadpq', [8], [8], lambda a: '(%s)' % a, kind='loadp', scalar=[0]))
add(Op('storeq', [8], [8], lambda a: '(%s)' % a, kind='store'))
add(Op('copyq', [8], [8], lambda a: '(%s)' % a))
add(Op('splatw3q', [8], [8], lambda a: '((((unsigned long)(%s)) >> 48) * 0x0001000100010001UL)' % a,
       note='top 16 bits replicated into all four 16-bit lanes'))
add(Op('cmpeqq', [8], [8, 8], lambda a, b: '(((%s) == (%s)) ? -1L : 0L)' % (a, b)))
add(Op('cmpgtsq', [8], [8, 8], lambda a, b: '(((long)(%s) > (long)(%s)) ? -1L : 0L)' % (a, b)))
add(Op('andq', [8], [8, 8], lambda a, b: '((%s) & (%s))' % (a, b)))
add(Op('andnq', [8], [8, 8], lambda a, b: '((~(%s)) & (%s))' % (a, b)))
add(Op('orq', [8], [8, 8], lambda a, b: '((%s) | (%s))' % (a, b)))
add(Op('xorq', [8], [8, 8], lambda a, b: '((%s) ^ (%s))' % (a, b)))
add(Op('addq', [8], [8, 8], lambda a, b: '((unsigned long)(%s) + (unsigned long)(%s))' % (a, b)))
add(Op('subq', [8], [8, 8], lambda a, b: '((unsigned long)(%s) - (unsigned long)(%s))' % (a, b)))
_pre64 = lambda s: '(%s) >= 0 && (%s) < 64' % (s[1], s[1])
add(Op('shlq', [8], [8, 8], lambda a, b: '((unsigned long)(%s) << (%s))' % (a, b), scalar=[1], pre=_pre64))
add(Op('shrsq', [8], [8, 8], lambda a, b: '((long)(%s) >> (%s))' % (a, b), scalar=[1], pre=_pre64))
add(Op('shruq', [8], [8, 8], lambda a, b: '((unsigned long)(%s) >> (%s))' % (a, b), scalar=[1], pre=_pre64))

# ---------------------------------------------------------------- conversions
add(Op('convsbw', [2], [1], lambda a: sx(1, a)))
add(Op('convubw', [2], [1], lambda a: zx(1, a)))
add(Op('splatbw', [2], [1], lambda a: '(%s * 0x0101)' % zx(1, a)))
add(Op('splatbl', [4], [1], lambda a: '((unsigned int)(%s) * 0x01010101u)' % a))
add(Op('convswl', [4], [2], lambda a: sx(2, a)))
add(Op('convuwl', [4], [2], lambda a: zx(2, a)))
add(Op('convslq', [8], [4], lambda a: sx(4, a)))
add(Op('convulq', [8], [4], lambda a: zx(4, a)))
for (s, d) in ((2, 1), (4, 2), (8, 4)):
    fs, fd = SUF[s], SUF[d]
    add(Op('conv%s%s' % (fs, fd), [d], [s], lambda a: '(%s)' % a))
    if s != 8:
        add(Op('convh%s%s' % (fs, fd), [d], [s], (lambda s: lambda a: '(%s >> %d)' % (zx(s, a), 4 * s))(s)))
    add(Op('convsss%s%s' % (fs, fd), [d], [s], (lambda s, d: lambda a: clamp(sx(s, a), SMIN[d], SMAX[d]))(s, d)))
    add(Op('convsus%s%s' % (fs, fd), [d], [s], (lambda s, d: lambda a: clamp(sx(s, a), '0', UMAX[d]))(s, d)))
    add(Op('convuss%s%s' % (fs, fd), [d], [s], (lambda s, d: lambda a: '(%s > %s ? %s : %s)' % (zx(s, a), SMAX[d], SMAX[d], zx(s, a)))(s, d)))
    add(Op('convuus%s%s' % (fs, fd), [d], [s], (lambda s, d: lambda a: '(%s > %s ? %s : %s)' % (zx(s, a), UMAX[d], UMAX[d], zx(s, a)))(s, d)))

add(Op('mulsbw', [2], [1, 1], lambda a, b: '(%s * %s)' % (sx(1, a), sx(1, b))))
add(Op('mulubw', [2], [1, 1], lambda a, b: '(%s * %s)' % (zx(1, a), zx(1, b))))
add(Op('mulswl', [4], [2, 2], lambda a, b: '(%s * %s)' % (sx(2, a), sx(2, b))))
add(Op('muluwl', [4], [2, 2], lambda a, b: '((unsigned int)(%s) * (unsigned int)(%s))' % (a, b)))
add(Op('mulslq', [8], [4, 4], lambda a, b: '(%s * %s)' % (sx(4, a), sx(4, b)), hard=True))
add(Op('mululq', [8], [4, 4], lambda a, b: '((unsigned long)(%s) * (unsigned long)(%s))' % (a, b), hard=True))

# accumulators: term added per element; modulus by destination size
add(Op('accw', [2], [2], lambda a: '(%s)' % zx(2, a), kind='acc'))
add(Op('accl', [4], [4], lambda a: '((unsigned int)(%s))' % a, kind='acc'))
add(Op('accsadubl', [4], [1, 1], lambda a, b: '((unsigned int)(%s > %s ? %s - %s : %s - %s))' % (
    zx(1, a), zx(1, b), zx(1, a), zx(1, b), zx(1, b), zx(1, a)), kind='acc'))

# byte order (little-endian: first = low)
add(Op('swapw', [2], [2], lambda a: '(((%s & 255) << 8) | (%s >> 8))' % (zx(2, a), zx(2, a))))
add(Op('swapl', [4], [4], lambda a: '((((unsigned int)(%s) & 0xffu) << 24) | (((unsigned int)(%s) & 0xff00u) << 8) | (((unsigned int)(%s) >> 8) & 0xff00u) | ((unsigned int)(%s) >> 24))' % (a, a, a, a)))
add(Op('swapwl', [4], [4], lambda a: '(((unsigned int)(%s) << 16) | ((unsigned int)(%s) >> 16))' % (a, a)))
add(Op('swapq', [8], [8], lambda a: '(' + ' | '.join('((((unsigned long)(%s) >> %d) & 255UL) << %d)' % (a, 8 * k, 56 - 8 * k) for k in range(8)) + ')'))
add(Op('swaplq', [8], [8], lambda a: '(((unsigned long)(%s) << 32) | ((unsigned long)(%s) >> 32))' % (a, a)))
for (s, d) in ((2, 1), (4, 2), (8, 4)):
    fs, fd = SUF[s], SUF[d]
    add(Op('select0%s%s' % (fs, fd), [d], [s], lambda a: '(%s)' % a))
    add(Op('select1%s%s' % (fs, fd), [d], [s], (lambda s: lambda a: '((%s)(%s) >> %d)' % (UT[s], a, 4 * s))(s)))
    add(Op('merge%s%s' % (fd, fs), [s], [d, d], (lambda s, d: lambda a, b: '((%s)(%s) | ((%s)(%s) << %d))' % (UT[s], a, UT[s] if s == 8 else 'unsigned int', b, 8 * d))(s, d)))
    add(Op('split%s%s' % (fs, fd), [d, d], [s], (lambda s: lambda a: ['((%s)(%s) >> %d)' % (UT[s], a, 4 * s), '(%s)' % a])(s)))

# ---------------------------------------------------------------- float / double (property C18)
F32 = lambda x: '((union{unsigned int u_; float f_;}){.u_ = (%s)}).f_' % x
B32 = lambda x: '((union{unsigned int u_; float f_;}){.f_ = (%s)}).u_' % x
F64 = lambda x: '((union{unsigned long u_; double f_;}){.u_ = (%s)}).f_' % x
B64 = lambda x: '((union{unsigned long u_; double f_;}){.f_ = (%s)}).u_' % x
FL32 = lambda x: '((unsigned int)(%s) & ((((unsigned int)(%s) & 0x7f800000u) == 0) ? 0xff800000u : 0xffffffffu))' % (x, x)
FL64 = lambda x: '((unsigned long)(%s) & ((((unsigned long)(%s) & 0x7ff0000000000000UL) == 0) ? 0xfff0000000000000UL : 0xffffffffffffffffUL))' % (x, x)
NAN32 = lambda x: '((((unsigned int)(%s)) & 0x7fffffffu) > 0x7f800000u)' % x
NAN64 = lambda x: '((((unsigned long)(%s)) & 0x7fffffffffffffffUL) > 0x7ff0000000000000UL)' % x

FP = {4: (F32, B32, FL32, NAN32), 8: (F64, B64, FL64, NAN64)}
for sz, f in ((4, 'f'), (8, 'd')):
    F, B, FL, NAN = FP[sz]

    def mkf(F=F, B=B, FL=FL, NAN=NAN, sz=sz):
        d = {}
        for nm, opr in (('add', '+'), ('sub', '-'), ('mul', '*'), ('div', '/')):
            d[nm] = (lambda opr: lambda a, b: FL(B('(%s %s %s)' % (F(FL(a)), opr, F(FL(b))))))(opr)
        d['cmpeq'] = lambda a, b: '((%s == %s) ? -1L : 0L)' % (F(FL(a)), F(FL(b)))
        d['cmplt'] = lambda a, b: '((%s < %s) ? -1L : 0L)' % (F(FL(a)), F(FL(b)))
        d['cmple'] = lambda a, b: '((%s <= %s) ? -1L : 0L)' % (F(FL(a)), F(FL(b)))
        return d
    D = mkf()
    for nm in ('add', 'sub', 'mul', 'div'):
        add(Op(nm + f, [sz], [sz, sz], D[nm], isfloat=True, kind='farith', hard=(nm in ('mul', 'div'))))
    for nm in ('cmpeq', 'cmplt', 'cmple'):
        add(Op(nm + f, [sz], [sz, sz], D[nm], isfloat=True))
    # min/max: NaN operand propagated; else numerically smaller/larger; either accepted when equal
    add(Op('min' + f, [sz], [sz, sz], None, isfloat=True, kind='fminmax'))
    add(Op('max' + f, [sz], [sz, sz], None, isfloat=True, kind='fminmax'))
    add(Op('sqrt' + f, [sz], [sz], None, isfloat=True, kind='fsqrt', hard=True))

# conversions (statement: saturation of out-of-range float-to-int conversions: positive -> 0x7fffffff,
# negative/NaN -> 0x80000000 as cvttss2si; in-range: truncation toward zero)
add(Op('convfl', [4], [4], None, isfloat=True, kind='fconv_fl'))
add(Op('convdl', [4], [8], None, isfloat=True, kind='fconv_dl'))
add(Op('convlf', [4], [4], lambda a: B32('((float)(int)(%s))' % a), isfloat=True))
add(Op('convld', [8], [4], lambda a: B64('((double)(int)(%s))' % a), isfloat=True))
add(Op('convfd', [8], [4], None, isfloat=True, kind='fconv_fd'))
add(Op('convdf', [4], [8], None, isfloat=True, kind='fconv_df'))
add(Op('orf', [4], [4, 4], lambda a, b: '((%s) | (%s))' % (a, b), isfloat=True))
add(Op('andf', [4], [4, 4], lambda a, b: '((%s) & (%s))' % (a, b), isfloat=True))
add(Op('convwf', [4], [2], None, isfloat=True, kind='unspecified'))

INT_OPS = [n for n, o in OPS.items() if not o.isfloat]
FLOAT_OPS = [n for n, o in OPS.items() if o.isfloat]
