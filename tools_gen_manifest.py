#!/usr/bin/env python3
# Regenerates MANIFEST.json from the table below (kept in one place so it is always schema-valid).
import json, os
V = os.path.dirname(os.path.abspath(__file__))
T = json.load(open(os.path.join(V, 'manifest_table.json')))
checks = []
for c in T['checks']:
    pid = c['id']
    checks.append({
        'property_id': pid,
        'quick_cmd': './check %s --tier quick' % pid,
        'thorough_cmd': './check %s --tier thorough' % pid,
        'evidence_file': '/verif/evidence/%s.json' % pid,
        'replay_cmd_template': './check %s --replay {path}' % pid,
        'engine': 'cbmc-contracts',
        'level_claimed': {'category': c.get('category', 'proof'), 'text': c['text'], 'design_ref': c['design_ref']},
        'level_note': c['note'],
        'technique': c['technique'],
    })
m = {
    'version': 1,
    'setup_cmd': 'python3 /verif/setup.py',
    'hooks': {'guard': 'ORC_VERIF', 'enable': 'none needed: contracts, loop contracts and ghost state live in /verif (wrapper translation units include the real /repo sources); the guard name is reserved and unused',
              'baseline_off_cmd': 'ninja -C /repo/_build && meson test -C /repo/_build', 'source_commits': [], 'add_only': True},
    'engines': [{'name': 'cbmc-contracts', 'path': '/verif/check', 'serves_properties': [c['id'] for c in T['checks']],
                 'kind_free_text': 'CBMC 6.11 code contracts (goto-instrument --dfcc, loop contracts via --loop-contracts-file) on wrapper TUs that #include the real /repo sources; SAT portfolio minisat/kissat/cadical; native gcc+ASan/UBSan replay'}],
    'checks': checks,
    'notes': T.get('notes', ''),
    'not_applicable': T['not_applicable'],
}
json.dump(m, open(os.path.join(V, 'MANIFEST.json'), 'w'), indent=1)
print('wrote MANIFEST.json with %d checks, %d not_applicable' % (len(checks), len(m['not_applicable'])))
