# C08: safe to use from many threads -- lock discipline only (sequential contracts)
import re
from .. import core, runner

PROP = 'C08'
ASSUME = [
    'ONLY the lock discipline is decided: ghost lock depth for the global and the once mutex (non-recursive); every access path into allocator state holds the global lock, every public entry releases it on all paths, all registry initialisers run inside orc_init\'s critical section, once enter/leave sequential protocol',
    'NOT decided: interleavings, acquire/release ordering, the unlocked first read of "inited" in orc_init, data races in general -- contracts are sequential (CBMC contracts have no thread support)',
    'registration APIs called by applications (orc_target_register, orc_opcode_register_static, orc_rule_set_new) are unlocked by design; not judged',
]


def units(tier, seed, only=None):
    S = ['contracts/threads.c']
    us = [
        core.Unit('orc_init', S, 'h_orc_init', enforce='orc_init', timeout=300),
        core.Unit('orc_once_enter', S, 'h_once_enter', enforce='orc_once_enter', timeout=300),
        core.Unit('orc_once_leave', S, 'h_once_leave', enforce='orc_once_leave', timeout=300),
        core.Unit('lemma_once', S, 'lemma_once', enforce=None, replace=['orc_once_enter', 'orc_once_leave'], functions=[],
                  contract_text='lemma over the once contracts: first caller initialises, second caller sees the value, no lock left held', timeout=300),
    ]
    from . import c09
    for u in c09.units(tier, seed):
        if u.name in ('orc_code_chunk_free', 'orc_code_allocate_codemem', 'orc_code_chunk_split', 'orc_code_chunk_merge'):
            u.name = 'lock:' + u.name
            us.append(u)
    us.append(core.Unit('lock:orc_code_allocate_codemem:callees', c09.SRC, 'h_allocate', enforce='orc_code_allocate_codemem', defines=['LOCK_ONLY=1'],
                        replace=['orc_code_region_get_free_chunk', 'orc_code_chunk_split'],
                        contract_text='orc_code_allocate_codemem enters the free-chunk search and the split only while holding the global mutex (preconditions of the replaced callees), and returns with the mutex released'))
    if only:
        us = [u for u in us if re.search(only, u.name)]
    return us


def run(tier, seed, only=None):
    return runner.run_property(PROP, units(tier, seed, only), tier, seed, assumptions=ASSUME)


def replay(path):
    print('see replay file', path)
    return 0
