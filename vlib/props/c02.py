# C02: every integer opcode means what the reference says (emulator functions + driver)
import os, re, sys, json
from .. import core, runner, emu
from ..emu import OPS
from spec.opcodes import INT_OPS, ERRATA

PROP = 'C02'

ASSUME = [
    'SPEC table /verif/spec/opcodes.py is the formal reading of doc/opcode_table.xml + the property statement (errata listed in coverage.reference_errata)',
    'symbolic array length capped at n <= 10^6 elements, offset <= 10^6 (object-size cap of the verifier); no bound on operand values',
    'accumulator contracts (accw, accl, accsadubl) require n <= 64 = the largest chunk the emulation driver passes (16 << 2); additivity over chunks is the same postcondition with old(*acc) symbolic; whole-array sum by induction on chunks is a pen-and-paper step',
    'shift opcodes: contract requires 0 <= shift < width (the statement quantifies shifts by 0..width-1)',
    'ldres*: start/step in [0,2^31) resp. [0,2^24], position < 2^31',
]


def select(tier, seed, names):
    return names


def units(tier, seed, only=None):
    us = []
    for name in INT_OPS:
        us.append(emu.gen_unit(name, 'spec', tier))
    from . import c02_driver
    us += c02_driver.units(tier, seed)
    if only:
        us = [u for u in us if re.search(only, u.name)]
    return us


def run(tier, seed, only=None):
    us = units(tier, seed, only)
    from . import emu_replay
    return runner.run_property(PROP, us, tier, seed, replay_fn=emu_replay.replay_unit, assumptions=ASSUME,
                               extra_cov={'reference_errata': ERRATA})


def replay(path):
    from . import emu_replay
    return emu_replay.replay_file(path)
