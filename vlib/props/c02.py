# C02: every integer opcode means what the reference says (emulator functions + driver)
import os, re, sys, json
from .. import core, runner, emu
from ..emu import OPS
from spec.opcodes import INT_OPS, ERRATA

PROP = 'C02'

ASSUME = [
    'SPEC table /verif/spec/opcodes.py is the formal reading of doc/opcode_table.xml + the property statement (errata listed in coverage.reference_errata)',
    'symbolic array length capped at n <= 10^6 elements, offset <= 10^6 (object-size cap of the verifier); no bound on operand values',
    'accumulator contracts (accw, accl, accsadubl) require n <= 64 = the largest chunk the emulation driver passes (16 << 2); additivity over chunks is the same postcondition with old(*acc) symbolic; whole-array sum by induction on chunks is a pen-and-paper step',
    'shift opcodes: contract requires 0 <= shift < width (the statement quantifies shifts by 0..width-1)',
    'ldres*: start/step in [0,2^31) resp. [0,2^24], position < 2^31',
]


def select(tier, seed, names):
    return names


# Value obligations that no back end decides with the unbounded loop contract (probed: MiniSat, kissat, CaDiCaL, z3,
# cvc5; DESIGN.md section 1 fact 9): bounded stand-in = n <= NB per call, loop unwound, explicit per-element
# postcondition.  Labelled bounded in evidence, never counted as proved.
HARD_BOUNDED = {'mululq': (2, 'kissat'), 'mulll': (2, 'cvc5'), 'mullw': (2, 'z3'), 'mulswl': (2, 'cvc5'),
                'ldresnearb': (4, 'kissat'), 'ldresnearl': (4, 'kissat'), 'ldreslinb': (4, 'kissat')}
# not decided within the quick budget even bounded: attempted in the thorough tier only; otherwise reported as not covered
THOROUGH_ONLY = {'mulslq': (1, 'kissat'), 'ldreslinl': (4, 'kissat')}
SLOW_KISSAT = {'mulhsb', 'mulhub', 'mulhsw', 'mulhuw', 'mulhsl', 'mulhul', 'mulsbw', 'mulubw', 'muluwl', 'mullb',
               'storeb', 'storew', 'storel', 'storeq', 'loadoffb', 'loadoffw', 'loadoffl', 'divluw', 'div255w'}


def units(tier, seed, only=None):
    us = []
    skipped = []
    for name in INT_OPS:
        if name in HARD_BOUNDED or (name in THOROUGH_ONLY and tier == 'thorough'):
            nb, be = (HARD_BOUNDED.get(name) or THOROUGH_ONLY[name])
            u = emu.gen_unit(name, 'spec', tier, bounded_n=nb)
            u.backends = [be] + [b for b in ('kissat', 'z3', 'cvc5') if b != be]
            u.timeout = 600
            if name in THOROUGH_ONLY:
                u.optional = True
                u.timeout = 900
                u.backends = u.backends[:1]
            us.append(u)
            continue
        if name in THOROUGH_ONLY:
            skipped.append(name)
            continue
        u = emu.gen_unit(name, 'spec', tier)
        if name in SLOW_KISSAT:
            u.backends = ['kissat', 'minisat']
            u.timeout = 400
        else:
            u.timeout = 240
        us.append(u)
    us.append(core.Unit('orc_executor_get_accumulator', ['contracts/executor_acc.c'], 'h_get_accumulator', enforce='orc_executor_get_accumulator', timeout=120))
    us.append(core.Unit('orc_executor_get_accumulator_str', ['contracts/executor_acc.c'], 'h_get_accumulator_str', enforce='orc_executor_get_accumulator_str', timeout=120))
    if tier == 'thorough':
        # the emulation driver (orc_executor_emulate with the opcode functions stubbed) stayed undecided in three
        # attempts of 15-30 minutes (DESIGN.md 7.5): attempted in the thorough tier only, never counted as proved
        from . import c02_driver
        for u in c02_driver.units(tier, seed):
            u.optional = True
            u.timeout = 900
            u.backends = list(u.backends)[:1]
            us.append(u)
    else:
        skipped.append('orc_executor_emulate (driver: chunking, operand wiring)')
    if only:
        us = [u for u in us if re.search(only, u.name)]
    units.skipped = skipped
    return us


def run(tier, seed, only=None):
    us = units(tier, seed, only)
    from . import emu_replay
    return runner.run_property(PROP, us, tier, seed, replay_fn=emu_replay.replay_unit, assumptions=ASSUME,
                               extra_cov={'reference_errata': ERRATA,
                                          'value_obligation_not_covered_in_this_tier': [(n if n.startswith('orc_') else 'emulate_' + n) for n in getattr(units, 'skipped', [])]})


def replay(path):
    from . import emu_replay
    return emu_replay.replay_file(path)
