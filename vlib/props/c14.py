# C14: the .orc parser is total
import re
from .. import core, runner

PROP = 'C14'
SRC = ['contracts/parse.c']
F = 'orc/orcparse.c'
ASSUME = [
    'libc string functions are assumed models (/verif/contracts/parse.c): strcmp/strtol/strtod return abstracted (nondeterministic) results and only require readable arguments; strlen/strchr on the source text are modelled through a ghost first-NUL position; strdup/vasprintf return fresh NUL-terminated buffers; snprintf NUL-terminates inside its buffer',
    'orc_debug_print is an empty stub (logging has no effect on verified state)',
    'malloc failure is not explored for libc-internal allocations (strdup, vasprintf); orc_malloc aborts on failure',
    'line buffer length capped at 100000 bytes, source text capped at 100000 bytes (object-size cap; no bound on the number of lines or tokens)',
    'program-construction API (orc_program_*) is replaced by the contracts in /verif/contracts/program_api.h; those contracts are enforced on the real bodies by check C05',
]

PTR = lambda e, base: '__CPROVER_same_object(%s, %s)' % (e, base)
OFFE = lambda e, base: '((long)((unsigned long)(%s) - (unsigned long)(%s)))' % (e, base)
LINE_INV = ('line->end == g_buf + g_len && ' + PTR('line->p', 'g_buf') + ' && ' + OFFE('line->p', 'g_buf') + ' >= 0 && ' +
            OFFE('line->p', 'g_buf') + ' <= g_len && ' + OFFE('line->p', 'g_buf') + ' >= ' + OFFE('__CPROVER_loop_entry(line->p)', 'g_buf'))


def units(tier, seed, only=None):
    us = []
    us.append(core.Unit('orc_line_skip_blanks', SRC, 'h_skip_blanks', enforce='orc_line_skip_blanks',
                        loops=[{'function': 'orc_line_skip_blanks', 'file': F, 'anchor': 'while (orc_line_has_data (line) && orc_line_is_blank (line))',
                                'invariants': LINE_INV, 'assigns': 'line->p',
                                'decreases': 'g_len - ' + OFFE('line->p', 'g_buf')}]))
    us.append(core.Unit('orc_line_advance', SRC, 'h_advance', enforce='orc_line_advance',
                        loops=[{'function': 'orc_line_advance', 'file': F, 'anchor': 'while (orc_line_has_data (line) &&',
                                'invariants': LINE_INV, 'assigns': 'line->p',
                                'decreases': 'g_len - ' + OFFE('line->p', 'g_buf')}]))
    us.append(core.Unit('orc_line_add_token', SRC, 'h_add_token', enforce='orc_line_add_token',
                        replace=['orc_line_advance']))
    us.append(core.Unit('orc_line_parse_tokens', SRC, 'h_parse_tokens', enforce='orc_line_parse_tokens',
                        replace=['orc_line_skip_blanks', 'orc_line_add_token'],
                        loops=[{'function': 'orc_line_parse_tokens', 'file': F, 'anchor': 'while (line->p < line->end)',
                                'invariants': 'line->end == g_buf + g_len && ' + PTR('line->p', 'g_buf') + ' && ' +
                                OFFE('line->p', 'g_buf') + ' >= 0 && ' + OFFE('line->p', 'g_buf') + ' <= g_len + 1 && '
                                'line->n_tokens >= 0 && line->n_tokens <= 16 && g_buf[g_len] == 0 && '
                                '((0 <= g_tk && g_tk < line->n_tokens) ==> (' + PTR('line->tokens[g_tk]', 'g_buf') + ' && ' +
                                OFFE('line->tokens[g_tk]', 'g_buf') + ' >= 0 && ' + OFFE('line->tokens[g_tk]', 'g_buf') + ' <= g_len))',
                                'assigns': '__CPROVER_object_whole(line), __CPROVER_object_whole(g_buf)',
                                'decreases': 'g_len + 1 - ' + OFFE('line->p', 'g_buf')}]))
    API = ['orc_program_add_temporary', 'orc_program_add_source', 'orc_program_add_destination',
           'orc_program_add_accumulator', 'orc_program_add_parameter', 'orc_program_add_parameter_float',
           'orc_program_add_parameter_double', 'orc_program_add_parameter_int64', 'orc_program_add_constant_str',
           'orc_program_set_type_name', 'orc_program_set_var_alignment', 'orc_program_set_constant_n',
           'orc_program_set_n_multiple', 'orc_program_set_n_minimum', 'orc_program_set_n_maximum',
           'orc_program_set_constant_m', 'orc_program_set_2d', 'orc_program_set_name', 'orc_program_set_backup_name',
           'orc_program_new', 'orc_program_append_str_n', 'orc_vector_append']
    handlers = ['backup', 'flags', 'dotn', 'dotm', 'source', 'dest', 'accumulator', 'constant_str', 'temporary',
                'parameter', 'parameter_int64', 'parameter_float', 'parameter_double', 'opcode', 'init']
    for h in handlers:
        fn = 'orc_parse_handle_' + h
        us.append(core.Unit(fn, SRC, 'h_' + fn, enforce=fn, replace=API, unwind=18, timeout=900, object_bits=12,
                            cbmc_flags=['--no-array-field-sensitivity']))
    if only:
        us = [u for u in us if re.search(only, u.name)]
    return us


def run(tier, seed, only=None):
    return runner.run_property(PROP, units(tier, seed, only), tier, seed, assumptions=ASSUME)


def replay(path):
    print('see replay file', path)
    return 0
