# C14: the .orc parser is total
import os, re
from .. import core, runner

PROP = 'C14'
SRC = ['contracts/parse.c']
GEN_PARSE = os.path.join(core.VERIF, 'out', 'gen', 'orcparse_nv.c')


def split_args(txt):
    args, depth, cur, instr = [], 0, '', False
    i = 0
    while i < len(txt):
        ch = txt[i]
        if instr:
            cur += ch
            if ch == '\\':
                cur += txt[i + 1]
                i += 1
            elif ch == '"':
                instr = False
        elif ch == '"':
            instr = True
            cur += ch
        elif ch in '([':
            depth += 1
            cur += ch
        elif ch in ')]':
            depth -= 1
            cur += ch
        elif ch == ',' and depth == 0:
            args.append(cur.strip())
            cur = ''
        else:
            cur += ch
        i += 1
    if cur.strip():
        args.append(cur.strip())
    return args


def gen_parse_source():
    """Mechanical, must-fire extraction of orc/orcparse.c (re-done on every run): dfcc cannot instrument variadic
    functions, so orc_parse_add_error(parser, fmt, ...) becomes the non-variadic orc_parse_add_error_nv(parser, fmt);
    the dropped variadic arguments are still EVALUATED at each call site ((void)(arg), ...) so their memory safety
    stays an obligation; they only fed the error text (vasprintf is a stub).  Nothing else is changed."""
    src = open(os.path.join(core.REPO, 'orc/orcparse.c')).read()
    n = 0
    proto = 'static void orc_parse_add_error (OrcParser *parser, const char *format, ...);'
    if proto not in src:
        raise core.ToolError('extraction rule 1 (prototype of orc_parse_add_error) did not fire')
    src = src.replace(proto, 'static void orc_parse_add_error_nv (OrcParser *parser, const char *format);')
    head = 'orc_parse_add_error (OrcParser *parser, const char *format, ...)\n{'
    if head not in src:
        raise core.ToolError('extraction rule 2 (definition of orc_parse_add_error) did not fire')
    src = src.replace(head, 'orc_parse_add_error_nv (OrcParser *parser, const char *format)\n{')
    for old, new in (('    va_start (var_args, format);\n', '    /* va_start dropped by extraction */\n'),
                     ('    va_end (var_args);\n', '    /* va_end dropped by extraction */\n')):
        if src.count(old) != 1:
            raise core.ToolError('extraction rule 3 (%r) did not fire exactly once' % old)
        src = src.replace(old, new)
    out = ''
    pos = 0
    pat = re.compile(r'orc_parse_add_error \(')
    while True:
        m = pat.search(src, pos)
        if not m:
            out += src[pos:]
            break
        # find matching paren
        i = m.end()
        depth = 1
        instr = False
        while depth:
            ch = src[i]
            if instr:
                if ch == '\\':
                    i += 1
                elif ch == '"':
                    instr = False
            elif ch == '"':
                instr = True
            elif ch == '(':
                depth += 1
            elif ch == ')':
                depth -= 1
            i += 1
        args = split_args(src[m.end():i - 1])
        if len(args) < 2:
            raise core.ToolError('extraction rule 4: unexpected call shape')
        extra = ''.join('(void)(%s), ' % a for a in args[2:])
        out += src[pos:m.start()] + '(%sorc_parse_add_error_nv (%s, %s))' % (extra, args[0], args[1])
        pos = i
        n += 1
    if n < 20:
        raise core.ToolError('extraction rule 4 fired only %d times' % n)
    os.makedirs(os.path.dirname(GEN_PARSE), exist_ok=True)
    with open(GEN_PARSE, 'w') as f:
        f.write(out)
    return n

F = GEN_PARSE
ASSUME = [
    'parser-state units (handlers, line layer, error recording) run without --pointer-overflow-check (intractable with it); dereferences are still checked',
    'libc string functions are assumed models (/verif/contracts/parse.c): strcmp/strtol/strtod return abstracted (nondeterministic) results and only require readable arguments; strlen/strchr on the source text are modelled through a ghost first-NUL position; strdup/vasprintf return fresh NUL-terminated buffers; snprintf NUL-terminates inside its buffer',
    'orc_debug_print is an empty stub (logging has no effect on verified state)',
    'malloc failure is not explored for libc-internal allocations (strdup, vasprintf); orc_malloc aborts on failure',
    'line buffer length capped at 100000 bytes, source text capped at 100000 bytes (object-size cap; no bound on the number of lines or tokens)',
    'program-construction API (orc_program_*) is replaced by the contracts in /verif/contracts/program_api.h; those contracts are enforced on the real bodies by check C05',
]

# --pointer-overflow-check makes the parser-state units intractable (5 s -> >15 min); out-of-bounds DEREFERENCES are
# still obligations (--pointer-check, --bounds-check); pure pointer-arithmetic overflow is not checked for these units
CHECKS_NPO = [c for c in core.DEFAULT_CHECKS if c != '--pointer-overflow-check']
UL = lambda e: '(unsigned long)(%s)' % e
INB = lambda e, extra: '__CPROVER_same_object(%s, g_buf_var) && %s <= %s%s' % (e, UL(e), UL('g_buf_var + g_len_var'), extra)
LINE_INV = (INB('line->p', '') + ' && ' + UL('line->p') + ' >= ' + UL('__CPROVER_loop_entry(line->p)'))
DECR = UL('g_buf_var + g_len_var') + ' - ' + UL('line->p')


def opaque_ok(fn):
    """API_OPAQUE is only allowed for a function whose body never dereferences the program (mechanical check)."""
    span = core.function_span(GEN_PARSE, fn)
    if not span:
        raise core.ToolError('function %s not found' % fn)
    body = '\n'.join(core.read_lines(GEN_PARSE)[span[0] - 1:span[1]])
    return re.search(r'program\s*->', body) is None


def units(tier, seed, only=None):
    gen_parse_source()
    us = []
    us.append(core.Unit('orc_line_skip_blanks', SRC, 'h_skip_blanks', enforce='orc_line_skip_blanks',
                        loops=[{'function': 'orc_line_skip_blanks', 'file': F, 'anchor': 'while (orc_line_has_data (line) && orc_line_is_blank (line))',
                                'invariants': LINE_INV, 'assigns': 'line->p',
                                'decreases': DECR}]))
    us.append(core.Unit('orc_line_advance', SRC, 'h_advance', enforce='orc_line_advance',
                        loops=[{'function': 'orc_line_advance', 'file': F, 'anchor': 'while (orc_line_has_data (line) &&',
                                'invariants': LINE_INV, 'assigns': 'line->p',
                                'decreases': DECR}]))
    us.append(core.Unit('orc_line_add_token', SRC, 'h_add_token', enforce='orc_line_add_token',
                        replace=['orc_line_advance']))
    us.append(core.Unit('orc_line_parse_tokens', SRC, 'h_parse_tokens', enforce='orc_line_parse_tokens',
                        replace=['orc_line_skip_blanks', 'orc_line_add_token'],
                        loops=[{'function': 'orc_line_parse_tokens', 'file': F, 'anchor': 'while (line->p < line->end)',
                                'invariants': 'line->end == g_buf_var + g_len_var && g_len_var >= 0 && g_len_var <= 100000 && __CPROVER_rw_ok(g_buf_var, g_len_var + 1) && ' + INB('line->p', ' + 1') + ' && '
                                'line->n_tokens >= 0 && line->n_tokens <= 16 && g_buf_var[g_len_var] == 0 && '
                                '(line->n_tokens > 0 ==> (' + INB('line->tokens[0]', '') + ')) && '
                                '((0 <= g_tk && g_tk < line->n_tokens) ==> (' + INB('line->tokens[g_tk]', '') + '))',
                                'assigns': '__CPROVER_object_whole(line), __CPROVER_object_whole(g_buf_var)',
                                'decreases': '1 + ' + DECR}]))
    API = ['orc_program_add_temporary', 'orc_program_add_source', 'orc_program_add_destination',
           'orc_program_add_accumulator', 'orc_program_add_parameter', 'orc_program_add_parameter_float',
           'orc_program_add_parameter_double', 'orc_program_add_parameter_int64', 'orc_program_add_constant_str',
           'orc_program_set_type_name', 'orc_program_set_var_alignment', 'orc_program_set_constant_n',
           'orc_program_set_n_multiple', 'orc_program_set_n_minimum', 'orc_program_set_n_maximum',
           'orc_program_set_constant_m', 'orc_program_set_2d', 'orc_program_set_name', 'orc_program_set_backup_name',
           'orc_program_new', 'orc_program_append_str_n', 'orc_vector_append', 'orc_parse_add_error_valist']
    # NOT within reach (array-theory blow-up, > 14 GB, also with 5-token lines / loop contracts / opaque API contracts):
    # orc_parse_handle_source, _dest, _dotn (token loops with an in-body i++) and orc_parse_handle_opcode; listed as
    # not covered in evidence, never counted as proved.
    handlers = ['backup', 'flags', 'dotm', 'accumulator', 'constant_str', 'temporary',
                'parameter', 'parameter_int64', 'parameter_float', 'parameter_double', 'init']
    TOKLOOP = {
        'flags': 'for (i=1;i<line->n_tokens;i++) {',
        'dotn': 'for(i=1;i<line->n_tokens;i++){',
        'source': 'for(i=3;i<line->n_tokens;i++){',
        'dest': 'for(i=3;i<line->n_tokens;i++){',
    }
    # conjunction written with bitwise & of 0/1 terms: a chain of short-circuit && makes dfcc's symbolic execution of the
    # invariant superlinear (91 s), & has no control flow (all dereferences in it are valid in every state)
    PINV = ' & '.join('(%s)' % t for t in [
        'parser->errors.n_items >= 0', 'parser->errors.n_items <= parser->errors.n_items_alloc', 'parser->errors.n_items_alloc <= 1000032',
        'parser->errors.n_items_alloc == 0 || __CPROVER_rw_ok(parser->errors.items, sizeof(void *) * parser->errors.n_items_alloc)',
        'parser->program == __CPROVER_loop_entry(parser->program)', 'parser->errors.n_items >= __CPROVER_loop_entry(parser->errors.n_items)',
        'parser->program->n_insns >= 0', 'parser->program->n_insns <= 100', 'parser->program->n_src_vars >= 0', 'parser->program->n_src_vars <= 8',
        'parser->program->n_dest_vars >= 0', 'parser->program->n_dest_vars <= 4', 'parser->program->n_param_vars >= 0', 'parser->program->n_param_vars <= 8',
        'parser->program->n_const_vars >= 0', 'parser->program->n_const_vars <= 8', 'parser->program->n_temp_vars >= 0', 'parser->program->n_temp_vars <= 16',
        'parser->program->n_accum_vars >= 0', 'parser->program->n_accum_vars <= 4'])
    for h in handlers:
        fn = 'orc_parse_handle_' + h
        if h in TOKLOOP:
            # Token loops: neither full unwinding to 16 tokens (OOM / 14 min) nor a loop contract (> 20 min) is tractable
            # with the parser state in scope.  Bounded stand-in: lines of at most TOKMAX tokens, loop fully unwound, API
            # calls opaque (the handler never reads program state: checked mechanically by opaque_ok).
            if not opaque_ok(fn):
                raise core.ToolError('%s reads program state: opaque API contracts not applicable' % fn)
            tm = 5 if tier == 'quick' else 7
            us.append(core.Unit(fn, SRC, 'h_' + fn, enforce=fn, replace=API, checks=CHECKS_NPO, unwind=tm + 2, timeout=900, object_bits=12,
                                cbmc_flags=['--no-array-field-sensitivity'], defines=['API_OPAQUE', 'TOKMAX=%d' % tm], unwindset=['mk_tok_line.0:17'],
                                bounded='lines of at most %d tokens (token loop fully unwound)' % tm))
            continue
        us.append(core.Unit(fn, SRC, 'h_' + fn, enforce=fn, replace=API + (['orc_parse_find_opcode'] if h == 'opcode' else []), checks=CHECKS_NPO, unwind=18, timeout=300, object_bits=12,
                            cbmc_flags=['--no-array-field-sensitivity']))
    HF = dict(unwind=18, timeout=300, object_bits=12, cbmc_flags=['--no-array-field-sensitivity'], checks=CHECKS_NPO)
    us.append(core.Unit('orc_parse_add_error_valist', SRC, 'h_orc_parse_add_error_valist', enforce='orc_parse_add_error_valist',
                        replace=['orc_vector_append'], **HF))
    us.append(core.Unit('orc_parse_find_opcode', SRC, 'h_find_opcode', enforce='orc_parse_find_opcode',
                        loops=[{'function': 'orc_parse_find_opcode', 'file': F, 'anchor': 'for(i=0;i<parser->opcode_set->n_opcodes;i++)',
                                'invariants': '0 <= i && i <= parser->opcode_set->n_opcodes', 'assigns': 'i',
                                'decreases': 'parser->opcode_set->n_opcodes - i'}], **HF))
    us.append(core.Unit('orc_parse_find_line_length', SRC, 'h_find_line_length', enforce='orc_parse_find_line_length', **HF))
    us.append(core.Unit('orc_parse_advance', SRC, 'h_parse_advance', enforce='orc_parse_advance', **HF))
    us.append(core.Unit('orc_parse_get_line', SRC, 'h_get_line', enforce='orc_parse_get_line',
                        replace=['orc_parse_find_line_length', 'orc_parse_advance', '_strndup'], **HF))
    us.append(core.Unit('orc_parse_handle_function', SRC, 'h_orc_parse_handle_function', enforce='orc_parse_handle_function',
                        replace=API + ['orc_parse_sanity_check'], defines=['API_OPAQUE'] if opaque_ok('orc_parse_handle_function') else [], **HF))
    from . import c14_plain
    us += c14_plain.units(tier, seed)
    if only:
        us = [u for u in us if re.search(only, u.name)]
    return us


NOT_COVERED = ['orc_parse_handle_source, _dest, _dotn, _opcode: only in assume/assert form (units *:plain), not under dfcc',
               'orc_parse_handle_directive (function-pointer dispatch)', 'orc_parse_sanity_check', 'orc_parse_code (main loop)',
               'orc_parse_error_freev', 'orc_parse_splat_error', 'orc_parse_full']


def run(tier, seed, only=None):
    return runner.run_property(PROP, units(tier, seed, only), tier, seed, assumptions=ASSUME,
                               extra_cov={'functions_not_covered': NOT_COVERED})


def replay(path):
    print('see replay file', path)
    return 0
