from .. import core
from . import c17


def units(tier, seed):
    c17.gen_source()
    RA = dict(defines=['REGALLOC_SRC="%s"' % c17.GEN], timeout=600, object_bits=10, cbmc_flags=['--no-array-field-sensitivity'])
    return [
        core.Unit('orc_compiler_new_temporary', ['contracts/regalloc.c'], 'h_new_temporary', enforce='orc_compiler_new_temporary', **RA),
        core.Unit('orc_compiler_dup_temporary', ['contracts/regalloc.c'], 'h_dup_temporary', enforce='orc_compiler_dup_temporary', **RA),
        core.Unit('orc_compiler_check_sizes', ['contracts/compiler.c'], 'h_check_sizes', enforce='orc_compiler_check_sizes',
                  timeout=900, object_bits=10, unwind=101,
                  loops=[{'function': 'orc_compiler_check_sizes', 'file': 'orc/orccompiler.c', 'anchor': 'for(i=0;i<compiler->n_insns;i++) {',
                          'invariants': '0 <= i && i <= compiler->n_insns && max_size >= 1 && max_size <= 32 && compiler->result == __CPROVER_loop_entry(compiler->result) && compiler->error == __CPROVER_loop_entry(compiler->error)',
                          'assigns': 'AUTO_LOCALS, compiler->error, compiler->result', 'decreases': 'compiler->n_insns - i'},
                         {'function': 'orc_compiler_check_sizes', 'file': 'orc/orccompiler.c', 'anchor': 'for(j=0;j<ORC_STATIC_OPCODE_N_DEST;j++){',
                          'invariants': '0 <= j && j <= 2 && max_size >= 1 && max_size <= 32 && 0 <= i && i < compiler->n_insns && (multiplier == 1 || multiplier == 2 || multiplier == 4) && compiler->result == __CPROVER_loop_entry(compiler->result) && compiler->error == __CPROVER_loop_entry(compiler->error)',
                          'assigns': 'j, max_size, compiler->error, compiler->result', 'decreases': '2 - j'},
                         {'function': 'orc_compiler_check_sizes', 'file': 'orc/orccompiler.c', 'anchor': 'for(j=0;j<ORC_STATIC_OPCODE_N_SRC;j++){',
                          'invariants': '0 <= j && j <= 4 && max_size >= 1 && max_size <= 32 && 0 <= i && i < compiler->n_insns && (multiplier == 1 || multiplier == 2 || multiplier == 4) && compiler->result == __CPROVER_loop_entry(compiler->result) && compiler->error == __CPROVER_loop_entry(compiler->error)',
                          'assigns': 'j, max_size, compiler->error, compiler->result', 'decreases': '4 - j'}]),
        core.Unit('orc_compiler_check_sizes:small', ['contracts/compiler.c'], 'h_check_sizes_small', enforce='orc_compiler_check_sizes',
                  timeout=600, object_bits=10, unwind=7, bounded='programs of at most 2 instructions, loops unwound (no invariant needed)'),
        core.Unit('orc_x86_compiler_max_loop_shift', ['contracts/x86init.c'], 'h_max_loop_shift', enforce='orc_x86_compiler_max_loop_shift',
                  timeout=600, object_bits=10, cbmc_flags=['--no-array-field-sensitivity'],
                  loops=[{'function': 'orc_x86_compiler_max_loop_shift', 'file': 'orc/orcprogram-x86.c', 'anchor': 'while (n > 1) {',
                          'invariants': 'n >= 0 && i >= 0 && i <= 6 && n <= (64 >> i) && n == ((t->register_size / c->max_var_size) >> i) && (n >= 1 || (i == 0 && t->register_size / c->max_var_size == 0))',
                          'assigns': 'n, i', 'decreases': 'n'}]),
    ]
