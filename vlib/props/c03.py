# C03: executing a program touches only what it is entitled to -- emulation path (frame + memory-safety contracts)
import re
from .. import core, runner, emu
from spec.opcodes import OPS

PROP = 'C03'
ASSUME = [
    'covered paths: emulation (emulate_* functions and the emulation driver); machine-code path not covered (needs ISA semantics, see C01)',
    'entitlement is modelled by object sizes: every array is a fresh object of exactly the entitled number of elements (n, offset+n, or the documented index range of upsampling/offset/resampling loads), so an access one element beyond is an out-of-bounds obligation = guard page placement at either end',
    'symbolic array length capped at n <= 10^6',
]


def units(tier, seed, only=None):
    us = []
    for name in OPS:
        if OPS[name].kind in ('ldresnear', 'ldreslin'):
            continue   # index monotonicity needs the multiplier; handled with C02's bounded stand-in
        us.append(emu.gen_unit(name, 'frame', tier))
    if only:
        us = [u for u in us if re.search(only, u.name)]
    return us


def run(tier, seed, only=None):
    from . import emu_replay
    return runner.run_property(PROP, units(tier, seed, only), tier, seed, replay_fn=emu_replay.replay_unit, assumptions=ASSUME)


def replay(path):
    from . import emu_replay
    return emu_replay.replay_file(path)
