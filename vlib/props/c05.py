# C05: compilation always terminates, classifies its result, never corrupts memory (front end)
import re
from .. import core, runner

PROP = 'C05'
SRC = ['contracts/program.c']
ASSUME = [
    'libc string functions abstracted (strcmp/strlen/strtod results nondeterministic, arguments must be readable); strdup returns a fresh string; sprintf redirected to a fixed-arity model',
    'opcode registry seen from the construction API: orc_opcode_find_by_name returns NULL or an entry of an 8-entry table with arbitrary contents',
    'covered: the public construction API (capacity obligations of every add_*/append_* entry point), orc_compiler_check_sizes, orc_x86_compiler_max_loop_shift; NOT covered: instruction rewriting, temporaries, register allocation, rule assignment, the emission internals of every back end, result classification of orc_compiler_compile_program (listed in coverage.functions_not_covered)',
]
NOT_COVERED = ['orc_program_add_constant_str (capacity / classification contract written, not decided: solver memory)', 'orc_compiler_rewrite_insns', 'orc_compiler_rewrite_vars', 'orc_compiler_rewrite_vars2', 'orc_compiler_global_reg_alloc',
               'orc_compiler_allocate_register', 'orc_compiler_assign_rules', 'orc_compiler_compile_program (exit states)',
               'orc_x86_compiler_init (rest)', 'all back-end emitters (mmx/sse/avx/neon/mips/altivec/c64x)']


def units(tier, seed, only=None):
    K = dict(timeout=400, object_bits=12, unwind=70, cbmc_flags=['--no-array-field-sensitivity'])
    us = []
    for fn in ['orc_program_add_temporary', 'orc_program_add_source', 'orc_program_add_destination', 'orc_program_add_accumulator',
               'orc_program_add_parameter', 'orc_program_add_parameter_float', 'orc_program_add_parameter_double',
               'orc_program_add_parameter_int64', 'orc_program_add_constant_str',
               'orc_program_append_str_n', 'orc_program_append_2', 'orc_program_append', 'orc_program_append_ds',
               'orc_program_append_ds_str', 'orc_program_append_dds_str']:
        rep = []
        if fn == 'orc_program_add_constant_str':
            rep = ['_strtoll']
        if fn in ('orc_program_append_str_n', 'orc_program_append_ds_str', 'orc_program_append_dds_str'):
            rep = ['orc_program_find_var_by_name']
        KK = dict(K)
        if fn in ('orc_program_append_2', 'orc_program_append_str_n'):
            KK['cbmc_flags'] = []
            KK['timeout'] = 900
            KK['unwind'] = 8
        if fn == 'orc_program_add_constant_str':
            # not within reach: the union accesses vars[i].value.{i,f} at a symbolic slot index become byte updates over the
            # whole OrcProgram object (dfcc form: undecided at 800 s twice; assume/assert form: 30-58 GB formula); listed
            # under functions_not_covered, its contract stays in program_api.h as the ASSUMED contract used by C14/C15
            continue
        us.append(core.Unit(fn, SRC, 'h_' + fn, enforce=fn, replace=rep, **KK))
    us.append(core.Unit('orc_program_find_var_by_name', SRC, 'h_orc_program_find_var_by_name', enforce='orc_program_find_var_by_name',
                        loops=[{'function': 'orc_program_find_var_by_name', 'file': 'orc/orcprogram.c', 'anchor': 'for(i=0;i<ORC_N_VARIABLES;i++){',
                                'invariants': '0 <= i && i <= 64', 'assigns': 'i', 'decreases': '64 - i'}], **K))
    from . import c05_compiler
    us += c05_compiler.units(tier, seed)
    if only:
        us = [u for u in us if re.search(only, u.name)]
    return us


def run(tier, seed, only=None):
    return runner.run_property(PROP, units(tier, seed, only), tier, seed, assumptions=ASSUME,
                               extra_cov={'functions_not_covered': NOT_COVERED})


def replay(path):
    print('see replay file', path)
    return 0
