# C07: what orcc generates works end to end -- only the sentence about the library's own helpers orc_memcpy/orc_memset
import re
from .. import core, runner

PROP = 'C07'
SRC = ['contracts/functions.c']
F = 'orc/orcfunctions.c'
ASSUME = [
    'only the last sentence of the property is decided, and only for the C-level paths of orc/orcfunctions.c (checked-in orcc output that ships in the library): the Orc-free DISABLE_ORC bodies and the _backup_ functions; the JIT path (machine code) and the emulate path (C02 + driver) are not part of this check',
    'everything else in C07 (arbitrary .orc sources, orcc option modes, generated headers compile, wrappers marshal parameters) is NOT decided: orcc is a text generator over an unbounded input language; C04 covers its output for one-opcode programs',
    'n <= 10^6 (object-size cap); arrays are byte arrays at arbitrary addresses, so every alignment is covered',
]
INV = lambda dst, src: '0 <= i && i <= n && (__gk < (unsigned long)i ==> %s == %s)' % (dst, src)


def units(tier, seed, only=None):
    def loop(fn, dst, src, extra=''):
        return [{'function': fn, 'file': F, 'anchor': 'for (i = 0; i < n; i++) {', 'invariants': INV(dst, src) + extra,
                 'assigns': 'AUTO_LOCALS, __CPROVER_object_upto(%s, (unsigned long)n)' % dst.split('[')[0].replace('((unsigned char *)', '').rstrip(')'),
                 'decreases': 'n - i'}]
    us = [
        core.Unit('orc_memcpy[DISABLE_ORC]', SRC, 'h_memcpy', enforce='orc_memcpy', defines=['DISABLE_ORC'],
                  loops=[{'function': 'orc_memcpy', 'file': F, 'anchor': 'for (i = 0; i < n; i++) {',
                          'invariants': INV('((unsigned char *)d1)[__gk]', '((const unsigned char *)s1)[__gk]'),
                          'assigns': 'AUTO_LOCALS, __CPROVER_object_upto(d1, (unsigned long)n)', 'decreases': 'n - i'}]),
        core.Unit('orc_memset[DISABLE_ORC]', SRC, 'h_memset', enforce='orc_memset', defines=['DISABLE_ORC'],
                  loops=[{'function': 'orc_memset', 'file': F, 'anchor': 'for (i = 0; i < n; i++) {',
                          'invariants': INV('((unsigned char *)d1)[__gk]', '(unsigned char)p1'),
                          'assigns': 'AUTO_LOCALS, __CPROVER_object_upto(d1, (unsigned long)n)', 'decreases': 'n - i'}]),
        core.Unit('_backup_orc_memcpy', SRC, 'h_backup_memcpy', enforce='_backup_orc_memcpy',
                  loops=[{'function': '_backup_orc_memcpy', 'file': F, 'anchor': 'for (i = 0; i < n; i++) {',
                          'invariants': 'n == ex->n && ' + INV('((unsigned char *)ex->arrays[0])[__gk]', '((unsigned char *)ex->arrays[4])[__gk]'),
                          'assigns': 'AUTO_LOCALS, __CPROVER_object_upto(ex->arrays[0], (unsigned long)n)', 'decreases': 'n - i'}]),
        core.Unit('_backup_orc_memset', SRC, 'h_backup_memset', enforce='_backup_orc_memset',
                  loops=[{'function': '_backup_orc_memset', 'file': F, 'anchor': 'for (i = 0; i < n; i++) {',
                          'invariants': 'n == ex->n && ' + INV('((unsigned char *)ex->arrays[0])[__gk]', '(unsigned char)ex->params[24]'),
                          'assigns': 'AUTO_LOCALS, __CPROVER_object_upto(ex->arrays[0], (unsigned long)n)', 'decreases': 'n - i'}]),
    ]
    B = 'n <= 3, loops fully unwound (companion of the unbounded loop-contract unit)'
    for name, h, fn, d in (('orc_memcpy[DISABLE_ORC]:small', 'h_memcpy', 'orc_memcpy', ['DISABLE_ORC']), ('orc_memset[DISABLE_ORC]:small', 'h_memset', 'orc_memset', ['DISABLE_ORC']),
                           ('_backup_orc_memcpy:small', 'h_backup_memcpy', '_backup_orc_memcpy', []), ('_backup_orc_memset:small', 'h_backup_memset', '_backup_orc_memset', [])):
        us.append(core.Unit(name, SRC, h, enforce=fn, defines=d + ['SMALL_N=1'], unwind=6, bounded=B))
    if only:
        us = [u for u in us if re.search(only, u.name)]
    return us


def run(tier, seed, only=None):
    return runner.run_property(PROP, units(tier, seed, only), tier, seed, assumptions=ASSUME)


def replay(path):
    print('see replay file', path)
    return 0
