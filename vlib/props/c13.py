# C13: bytecode round trip -- primitive inverse pairs
import re
from .. import core, runner

PROP = 'C13'
SRC = ['contracts/bytecode.c']
ASSUME = [
    'orc_realloc is an assumed contract (fresh block of the requested size, old contents preserved, old block released)',
    'buffer length capped at 10^6 bytes',
    'whole-program round trip (orc_bytecode_from_program / orc_bytecode_parse_function) is NOT covered by a discharged contract: the monolithic query is intractable (DESIGN.md probe 19); the encode/decode primitives are proved to be inverse pairs and the encoder\'s instruction record is proved over their contracts; declaration records and the decoder\'s dispatch are not covered',
]


def units(tier, seed, only=None):
    us = [core.Unit('bytecode_append_byte', SRC, 'h_append_byte', enforce='bytecode_append_byte', replace=['orc_realloc'])]
    for f, h in (('bytecode_append_int', 'h_append_int'), ('bytecode_append_uint32', 'h_append_uint32'), ('bytecode_append_uint64', 'h_append_uint64')):
        us.append(core.Unit(f, SRC, h, enforce=f, replace=['bytecode_append_byte']))
    us.append(core.Unit('orc_bytecode_parse_get_byte', SRC, 'h_get_byte', enforce='orc_bytecode_parse_get_byte'))
    for f, h in (('orc_bytecode_parse_get_int', 'h_get_int'), ('orc_bytecode_parse_get_uint32', 'h_get_uint32'), ('orc_bytecode_parse_get_uint64', 'h_get_uint64')):
        us.append(core.Unit(f, SRC, h, enforce=f, replace=['orc_bytecode_parse_get_byte']))
    for lem, a, g in (('lemma_int', 'bytecode_append_int', 'orc_bytecode_parse_get_int'), ('lemma_uint32', 'bytecode_append_uint32', 'orc_bytecode_parse_get_uint32'),
                      ('lemma_uint64', 'bytecode_append_uint64', 'orc_bytecode_parse_get_uint64')):
        us.append(core.Unit(lem, SRC, lem, enforce=None, replace=[a, g], functions=[],
                            contract_text='lemma over the two contracts: decode(encode(v)) == v and the decoder ends where the encoder ended'))
    us.append(core.Unit('lemma_lanes', SRC, 'lemma_lanes', enforce=None, no_dfcc=True, functions=[], contract_text='bit-vector extensionality used to lift the per-lane lemmas'))
    us.append(core.Unit('orc_bytecode_from_program:insn_record', SRC, 'lemma_insn_record', enforce=None, replace=['bytecode_append_byte', 'bytecode_append_int'],
                        functions=['orc_bytecode_from_program'], defines=['VERIF_INSN_RECORD'], unwind=17, timeout=300,
                        contract_text='harness-level postcondition on the real encoder over the primitives\' contracts: a program with no declarations and one arbitrary instruction is written as [flags record] opcode-index+32, then d0 d1 s0 s1 s2 (each if its size is non-zero), END_FUNCTION, END; all loops have constant bounds (<= 16) and are unwound completely (unwinding assertions on)',
                        assumed=['orc_opcode_set_get("sys") returns a set of 4 opcodes with arbitrary operand sizes (the lookup itself is C17/C05 territory)', 'orc_malloc does not fail (it aborts on failure in the real library)']))
    if only:
        us = [u for u in us if re.search(only, u.name)]
    return us


def run(tier, seed, only=None):
    return runner.run_property(PROP, units(tier, seed, only), tier, seed, assumptions=ASSUME)


def replay(path):
    print('see replay file', path)
    return 0
