# C13: bytecode round trip -- primitive inverse pairs
import re
from .. import core, runner

PROP = 'C13'
SRC = ['contracts/bytecode.c']
ASSUME = [
    'orc_realloc is an assumed contract (fresh block of the requested size, old contents preserved, old block released)',
    'buffer length capped at 10^6 bytes',
    'whole-program round trip (orc_bytecode_from_program / orc_bytecode_parse_function) is NOT covered by a discharged contract: the monolithic query is intractable (DESIGN.md probe 19); the encode/decode primitives are proved to be inverse pairs and the encoder\'s instruction record is proved over their contracts; declaration records and the decoder\'s dispatch are not covered',
]


def units(tier, seed, only=None):
    us = [core.Unit('bytecode_append_byte', SRC, 'h_append_byte', enforce='bytecode_append_byte', replace=['orc_realloc'])]
    for f, h in (('bytecode_append_int', 'h_append_int'), ('bytecode_append_uint32', 'h_append_uint32'), ('bytecode_append_uint64', 'h_append_uint64')):
        us.append(core.Unit(f, SRC, h, enforce=f, replace=['bytecode_append_byte']))
    us.append(core.Unit('orc_bytecode_parse_get_byte', SRC, 'h_get_byte', enforce='orc_bytecode_parse_get_byte'))
    for f, h in (('orc_bytecode_parse_get_int', 'h_get_int'), ('orc_bytecode_parse_get_uint32', 'h_get_uint32'), ('orc_bytecode_parse_get_uint64', 'h_get_uint64')):
        us.append(core.Unit(f, SRC, h, enforce=f, replace=['orc_bytecode_parse_get_byte']))
    for lem, a, g in (('lemma_int', 'bytecode_append_int', 'orc_bytecode_parse_get_int'), ('lemma_uint32', 'bytecode_append_uint32', 'orc_bytecode_parse_get_uint32'),
                      ('lemma_uint64', 'bytecode_append_uint64', 'orc_bytecode_parse_get_uint64')):
        us.append(core.Unit(lem, SRC, lem, enforce=None, replace=[a, g], functions=[],
                            contract_text='lemma over the two contracts: decode(encode(v)) == v and the decoder ends where the encoder ended'))
    us.append(core.Unit('lemma_lanes', SRC, 'lemma_lanes', enforce=None, no_dfcc=True, functions=[], contract_text='bit-vector extensionality used to lift the per-lane lemmas'))
    us.append(core.Unit('orc_bytecode_from_program:insn_record', SRC, 'lemma_insn_record', enforce=None, replace=['bytecode_append_byte', 'bytecode_append_int'],
                        functions=['orc_bytecode_from_program'], defines=['VERIF_INSN_RECORD'], unwind=17, timeout=300,
                        contract_text='harness-level postcondition on the real encoder over the primitives\' contracts: a program with no declarations and one arbitrary instruction is written as [flags record] opcode-index+32, then d0 d1 s0 s1 s2 (each if its size is non-zero), END_FUNCTION, END; all loops have constant bounds (<= 16) and are unwound completely (unwinding assertions on)',
                        assumed=['orc_opcode_set_get("sys") returns a set of 4 opcodes with arbitrary operand sizes (the lookup itself is C17/C05 territory)', 'orc_malloc does not fail (it aborts on failure in the real library)']))
    if only:
        us = [u for u in us if re.search(only, u.name)]
    return us


def run(tier, seed, only=None):
    return runner.run_property(PROP, units(tier, seed, only), tier, seed, assumptions=ASSUME, replay_fn=replay_unit)


def replay(path):
    print('see replay file', path)
    return 0


# Native replay for the instruction-record unit: the real orcbytecode.c compiled by gcc, every operand-presence pattern with
# pairwise different operands (plus the values of the verifier's trace when it has them), compared with the record layout
# of the postcondition.  Functions of liborc that the encoder does not call stay unresolved (never executed).
NATIVE_INSN = r'''
#include <stdio.h>
#include <stdlib.h>
#include "/repo/orc/orcbytecode.c"
static OrcStaticOpcode g_opc[4]; static OrcOpcodeSet g_set;
OrcOpcodeSet *orc_opcode_set_get (const char *name) { return &g_set; }
void *orc_malloc (size_t n) { void *p = malloc(n); if (!p) abort(); return p; }
void *orc_realloc (void *q, size_t n) { void *p = realloc(q, n); if (!p) abort(); return p; }
static int put_int(unsigned char *e, int v) { if (v < 255) { e[0] = v; return 1; } e[0] = 255; e[1] = v & 0xff; e[2] = v >> 8; return 3; }
int main(void) {
  static const int flv[] = { 0, 3, 254, 255, 300, TRACE_FL };
  static const int base[] = { 10, 200, TRACE_ARG };
  long fails = 0, tot = 0;
  g_set.opcodes = g_opc; g_set.n_opcodes = 4;
  for (int oi = 0; oi < 4; oi++) for (int pat = 0; pat < 32; pat++) for (int fi = 0; fi < 6; fi++) for (int bi = 0; bi < 3; bi++) {
    OrcProgram *p = calloc(1, sizeof(*p)); OrcStaticOpcode *op = &g_opc[oi]; int arg[5];
    memset(op, 0, sizeof(*op));
    op->dest_size[0] = (pat & 1) ? 4 : 0; op->dest_size[1] = (pat & 2) ? 4 : 0;
    op->src_size[0] = (pat & 4) ? 4 : 0; op->src_size[1] = (pat & 8) ? 4 : 0; op->src_size[2] = (pat & 16) ? 4 : 0;
    for (int k = 0; k < 5; k++) arg[k] = (base[bi] + k) % 255;
    p->n_insns = 1; p->insns[0].opcode = op; p->insns[0].flags = flv[fi];
    p->insns[0].dest_args[0] = arg[0]; p->insns[0].dest_args[1] = arg[1];
    p->insns[0].src_args[0] = arg[2]; p->insns[0].src_args[1] = arg[3]; p->insns[0].src_args[2] = arg[4];
    unsigned char e[32]; int n = 0;
    e[n++] = ORC_BC_BEGIN_FUNCTION;
    if (flv[fi]) { e[n++] = ORC_BC_INSTRUCTION_FLAGS; n += put_int(e + n, flv[fi]); }
    e[n++] = 32 + oi;
    for (int k = 0; k < 5; k++) if (pat & (1 << k)) e[n++] = arg[k];
    e[n++] = ORC_BC_END_FUNCTION; e[n++] = ORC_BC_END;
    OrcBytecode *b = orc_bytecode_from_program(p);
    tot++;
    if (b->length != n || memcmp(b->bytecode, e, n) != 0) {
      if (fails < 3) { printf("FAILING INPUT: opcode index %d, operand sizes d0=%d d1=%d s0=%d s1=%d s2=%d, flags %d, operands d0=%d d1=%d s0=%d s1=%d s2=%d\n  encoder wrote:", oi, op->dest_size[0], op->dest_size[1], op->src_size[0], op->src_size[1], op->src_size[2], flv[fi], arg[0], arg[1], arg[2], arg[3], arg[4]);
        for (int j = 0; j < b->length; j++) printf(" %d", b->bytecode[j]); printf("\n  record layout:");
        for (int j = 0; j < n; j++) printf(" %d", e[j]); printf("\n"); }
      fails++;
    }
    orc_bytecode_free(b); free(p);
  }
  printf("TRIALS %ld FAILS %ld\n", tot, fails); return fails ? 1 : 0;
}
'''


def replay_unit(res, fos):
    if not res.unit.name.endswith(':insn_record'):
        return None
    import os, shutil, subprocess, tempfile
    tv = core.trace_inputs(res.trace or [], ('fl',))
    try:
        fl = int(str(tv.get('fl', '1')).rstrip('uUlL')) % 65535
    except ValueError:
        fl = 1
    src = NATIVE_INSN.replace('TRACE_FL', str(fl)).replace('TRACE_ARG', '60')
    wd = tempfile.mkdtemp(prefix='orcverif.replay.', dir=core.SCRATCH_ROOT)
    try:
        c, o, st, exe = (os.path.join(wd, n) for n in ('replay.c', 'replay.o', 'stubs.c', 'replay'))
        open(c, 'w').write(src)
        flags = ['-O1', '-g', '-w'] + [x for x in core.cc_flags() if not x.startswith('-DORC_VERIF_CBMC')]
        r = subprocess.run(['gcc'] + flags + ['-c', c, '-o', o], capture_output=True, text=True, timeout=300)
        if r.returncode != 0:
            return {'reproduced': False, 'error': 'native build failed', 'log': r.stderr[-2000:]}
        und = subprocess.run(['nm', '-u', o], capture_output=True, text=True).stdout.split()
        names = sorted(n for n in und if n.startswith('orc_') or n.startswith('_orc_'))
        # liborc functions the encoder never calls (decoder side): aborting stubs so that the object links
        open(st, 'w').write('#include <stdlib.h>\n' + ''.join('void %s(void) { abort(); }\n' % n for n in names))
        r = subprocess.run(['gcc', '-w', o, st, '-lm', '-o', exe], capture_output=True, text=True, timeout=300)
        if r.returncode != 0:
            return {'reproduced': False, 'error': 'native link failed', 'log': r.stderr[-2000:]}
        r = subprocess.run([exe], capture_output=True, text=True, timeout=300)
        out = (r.stdout + r.stderr)[-3000:]
        m = re.search(r'TRIALS (\d+) FAILS (\d+)', out)
        rep = bool(m and int(m.group(2)) > 0)
        return {'reproduced': rep, 'exit': r.returncode, 'output': out, 'stubbed_unreached': names, 'inputs_from_trace': {'fl': fl},
                'source': src if rep else None}
    except subprocess.TimeoutExpired:
        return {'reproduced': False, 'error': 'native replay timeout'}
    finally:
        shutil.rmtree(wd, ignore_errors=True)
