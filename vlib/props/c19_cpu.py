from .. import core
SRC = ['contracts/cpu.c']


def units(tier, seed):
    K = dict(timeout=600, object_bits=10)
    us = [
        core.Unit('orc_x86_cpuid_handle_standard_flags', SRC, 'h_standard_flags', enforce='orc_x86_cpuid_handle_standard_flags',
                  replace=['get_cpuid', 'check_xcr0_ymm'], **K),
        core.Unit('mmx_is_executable', SRC, 'h_mmx_exec', enforce='mmx_is_executable', replace=['orc_mmx_get_cpu_flags'], **K),
        core.Unit('sse_is_executable', SRC, 'h_sse_exec', enforce='sse_is_executable', replace=['orc_sse_get_cpu_flags'], **K),
        core.Unit('avx_is_executable', SRC, 'h_avx_exec', enforce='avx_is_executable', replace=['orc_sse_get_cpu_flags'], **K),
        core.Unit('sse_get_default_flags', SRC, 'h_sse_flags', enforce='sse_get_default_flags', replace=['orc_sse_get_cpu_flags'], **K),
        core.Unit('avx_get_default_flags', SRC, 'h_avx_flags', enforce='avx_get_default_flags', replace=['orc_sse_get_cpu_flags'], **K),
        core.Unit('mmx_get_default_flags', SRC, 'h_mmx_flags', enforce='mmx_get_default_flags', replace=['orc_mmx_get_cpu_flags'], **K),
    ]
    us.append(core.Unit('orc_x86_detect_cpuid', SRC, 'h_detect_cpuid', enforce='orc_x86_detect_cpuid',
                        replace=['get_cpuid', 'get_cpuid_ecx', 'orc_x86_cpuid_handle_standard_flags'], unwind=70, timeout=900, object_bits=10,
                        ignore=[r'arithmetic overflow on signed \* in l \* p'],
                        assumed=['orc_sse_detect_cpuid_intel: signed overflow in the cache-size product l*p*w*s for arbitrary CPUID leaf-4 values is not judged (outside C19: it only feeds the cache-size hints)']))
    return us
