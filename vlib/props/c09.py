# C09: code memory stays consistent over any history of compiles and frees
import re
from .. import core, runner

PROP = 'C09'
SRC = ['contracts/codemem.c']
ASSUME = [
    'local-window formulation: the representation invariant (chunks tile the region in offset order, doubly linked, no two adjacent free chunks) is stated per neighbouring pair; every operation is proved to preserve it on an arbitrary window [pp] p c n [nn] with a frame (assigns) that leaves every chunk outside the window untouched; the global invariant is the conjunction over all chunks (lemma L9: offsets strictly increase along next => ranges disjoint and covering; induction on the list, pen-and-paper)',
    'region->size in (0, 65536]; code bytes (region->write_ptr[..]) are in no assigns clause => bytes of other live functions unchanged by allocator operations',
    'orc_code_region_get_free_chunk (unbounded list walk) is used through its contract by orc_code_allocate_codemem; the contract itself is checked on bounded lists only (labelled bounded)',
    'OS functions are the nondeterministic model in /verif/stubs/os_stub.c; orc_debug_print is an empty stub',
    '"keeps computing correct results wherever placed" is about machine code: not covered (C01)',
]


def units(tier, seed, only=None):
    us = [
        core.Unit('orc_code_chunk_split', SRC, 'h_split', enforce='orc_code_chunk_split'),
        core.Unit('orc_code_chunk_merge', SRC, 'h_merge', enforce='orc_code_chunk_merge'),
        core.Unit('orc_code_chunk_free', SRC, 'h_free', enforce='orc_code_chunk_free'),
        core.Unit('orc_code_allocate_codemem', SRC, 'h_allocate', enforce='orc_code_allocate_codemem',
                  replace=['orc_code_region_get_free_chunk']),
    ]
    if only:
        us = [u for u in us if re.search(only, u.name)]
    return us


def run(tier, seed, only=None):
    return runner.run_property(PROP, units(tier, seed, only), tier, seed, assumptions=ASSUME)


def replay(path):
    print('see replay file', path)
    return 0
