# C06: every fallback path still gives the emulation result (OS failure model, dispatch)
import re
from .. import core, runner

PROP = 'C06'
SRC = ['contracts/codemem.c']
ASSUME = [
    'operating system = the nondeterministic model in /verif/stubs/os_stub.c: getenv returns NULL or a string of < 8 characters; mkstemp, ftruncate, mmap may each fail independently at every call (so one symbolic run covers every single, paired and n-fold failure position); ghost counters g_open_fds / g_live_maps track descriptors and mappings',
    'sprintf of the temp-file name is modelled as writing strlen(dir)+16 bytes; temp directory names are < 8 characters or the literal "/tmp"',
    'that emulation itself computes the reference result is C02; that native code is not used on these paths is the dispatch contract',
]


def units(tier, seed, only=None):
    K = dict(unwind=20, timeout=400, object_bits=10)
    us = [
        core.Unit('orc_code_region_allocate_codemem_dual_map', SRC, 'h_dual_map', enforce='orc_code_region_allocate_codemem_dual_map', **K),
        core.Unit('orc_code_region_allocate_codemem_anon_map', SRC, 'h_anon_map', enforce='orc_code_region_allocate_codemem_anon_map', **K),
        core.Unit('orc_code_region_allocate_codemem', SRC, 'h_region_allocate', enforce='orc_code_region_allocate_codemem',
                  **K),   # callees inlined: 4 temp-file attempts + the anonymous mapping
        core.Unit('orc_code_region_alloc', SRC, 'h_region_alloc', enforce='orc_code_region_alloc',
                  **K),
    ]
    from . import c06_exec
    us += c06_exec.units(tier, seed)
    if only:
        us = [u for u in us if re.search(only, u.name)]
    return us


def run(tier, seed, only=None):
    return runner.run_property(PROP, units(tier, seed, only), tier, seed, assumptions=ASSUME)


def replay(path):
    print('see replay file', path)
    return 0
