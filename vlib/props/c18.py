# C18: float/double opcodes -- IEEE results with flush-to-zero (emulator functions; generated-C path is C04)
import re
from .. import core, runner, emu
from spec.opcodes import FLOAT_OPS, OPS, ERRATA

PROP = 'C18'
ASSUME = [
    "CBMC's bit-precise IEEE-754 float/double model, round-to-nearest-even (the emulator runs under the default rounding mode)",
    'SPEC: inputs and outputs flushed (denormal -> signed zero); any NaN operand or NaN spec result => NaN destination (payload/sign of NaN not compared); otherwise bit equality',
    'min/max: NaN operand => NaN result; numerically different => the smaller/larger; numerically equal (e.g. +0/-0) => either operand accepted',
    'convfl/convdl: truncation toward zero inside the int32 range; |x| >= 2^31, infinities and NaN saturate by sign (0x7fffffff / 0x80000000), for every input (the C rules were made UB-free by a fix: commit)',
    'native SSE/AVX path is not covered (C01 not applicable)',
    'symbolic array length capped at n <= 10^6',
]
HARD_NOTE = 'value obligation of this opcode is attempted only in the thorough tier'


def units(tier, seed, only=None):
    us = []
    for name in FLOAT_OPS:
        op = OPS[name]
        if op.kind in ('fsqrt', 'unspecified'):
            u = emu.gen_unit(name, 'frame', tier)
            u.name = 'spec:emulate_' + name
            u.contract_text = 'frame and memory safety only (value not specified/decidable here)'
            us.append(u)
            continue
        if op.hard and tier == 'quick':
            u = emu.gen_unit(name, 'frame', tier)
            u.name = 'frameonly:emulate_' + name
            u.contract_text = 'quick tier: frame and memory safety only; value obligation runs in the thorough tier'
            us.append(u)
            continue
        u = emu.gen_unit(name, 'spec', tier)
        u.timeout = 240
        if op.hard:
            # float multiply / divide: bit-precise value obligation, attempted in the thorough tier only (optional: an
            # undecided attempt is reported as such, it does not make the check fail)
            u.timeout = 900
            u.optional = True
            u.backends = ['kissat']
            f = emu.gen_unit(name, 'frame', tier)
            f.name = 'frameonly:emulate_' + name
            f.contract_text = 'frame and memory safety only (companion of the optional value unit)'
            us.append(f)
        us.append(u)
    if only:
        us = [u for u in us if re.search(only, u.name)]
    return us


def run(tier, seed, only=None):
    from . import emu_replay
    return runner.run_property(PROP, units(tier, seed, only), tier, seed, replay_fn=emu_replay.replay_unit,
                               assumptions=ASSUME, extra_cov={'reference_errata': ERRATA})


def replay(path):
    from . import emu_replay
    return emu_replay.replay_file(path)
