# Native replay for emulator-style units (C02/C03/C18/C04): the contract predicate itself is compiled by gcc
# (ASan+UBSan) together with the REAL /repo source and evaluated on inputs taken from the verifier's trace
# (operand values, n, offset, i) plus boundary values.
import json, os, re, shutil, subprocess, tempfile
from .. import core, emu

BOUNDARY = [0, 1, 2, 3, 7, 8, 15, 16, 31, 32, 63, 64, 127, 128, 129, 254, 255, 256, 257, 32767, 32768, 32769, 65534, 65535,
            65536, 0x7fffffff, 0x80000000, 0x80000001, 0xfffffffe, 0xffffffff, 0x100000000, 0x7fffffffffffffff,
            0x8000000000000000, 0xffffffffffffffff, 0x00800000, 0x007fffff, 0x7f800000, 0xff800000, 0x7fc00000,
            0x3f800000, 0xbf800000, 0x4f000000, 0xcf000000, 0x4effffff, 0x000fffffffffffff, 0x7ff0000000000000,
            0x3ff0000000000000, 0x41e0000000000000, 0xc1e0000000000000, 0x7ff8000000000000, 0x0010000000000000]


def trace_ints(res, fn):
    vals = []
    hints = {}
    for t in (res.trace or []):
        for s in (t.get('trace') or []):
            if 'lhs' not in s:
                continue
            v = s.get('value')
            if v is None:
                continue
            found = re.findall(r'-?\d+', str(v)) if not re.fullmatch(r'[01]{8,}', str(v)) else [str(int(str(v), 2))]
            for x in found[:8]:
                try:
                    iv = int(x)
                except ValueError:
                    continue
                if s.get('fn') == fn:
                    vals.append(iv & 0xffffffffffffffff)
                if s.get('lhs') in ('n', 'offset', 'i', '__gk') and (s.get('fn') in (fn, 'harness', '') or s.get('lhs') == '__gk'):
                    hints[s['lhs']] = iv
    # dedupe keeping order, most recent last
    seen = []
    for v in reversed(vals):
        if v not in seen:
            seen.append(v)
    return seen[:48], hints


def native_source(unit, pool, hints, repo_file=None, call=None):
    nv = unit.native
    fn = nv['fn']
    k = nv['kind']
    nd, ns = len(nv['dsz']), len(nv['ssz'])
    UT = emu.UT
    P = nv['P']
    ens = nv['ens']
    src = []
    src.append('#include <stdio.h>\n#include <stdlib.h>\n#include <string.h>')
    src.append('#include "%s"' % (repo_file or os.path.join(core.REPO, emu.EMU_FILE)))
    src.append('static unsigned long __gk;')
    src.append('static unsigned long pool[] = {%s};' % ', '.join('%dUL' % (v & 0xffffffffffffffff) for v in pool))
    src.append('#define NPOOL (sizeof(pool)/sizeof(pool[0]))')
    src.append('static unsigned int old_cell;\n#define __CPROVER_old(x) old_cell')
    src.append('static long fails = 0;')
    src.append('static int trial(int n, int offset, unsigned rx, unsigned ry, long s1, long s2) {')
    src.append('  OrcOpcodeExecutor exs; OrcOpcodeExecutor *ex = &exs; memset(ex, 0, sizeof(*ex));')
    src.append('  orc_union64 sc[4]; memset(sc, 0, sizeof(sc));')
    scalars = nv['scalars']
    sv = ['s1', 's2']
    si = 0
    for j in scalars:
        src.append('  sc[%d].i = %s; ex->src_ptrs[%d] = &sc[%d];' % (j, sv[min(si, 1)], j, j))
        si += 1
    for r in nv['pre']:
        r2 = re.sub(r'\(([^()]*?)\)\s*==>\s*', r'!(\1) || ', r)
        src.append('  if (!(%s)) return 0;' % r2)
    for j in range(ns):
        if j in scalars:
            continue
        cnt = nv['src_count'][j]
        src.append('  long cs%d = (long)(%s); if (cs%d < 0 || cs%d > 4000000) return 0;' % (j, cnt, j, j))
        src.append('  %s *S%d = malloc(cs%d * %d + 0); ex->src_ptrs[%d] = S%d;' % (UT[nv['ssz'][j]], j, j, nv['ssz'][j], j, j))
        src.append('  for (long q = 0; q < cs%d; q++) S%d[q] = (%s)pool[(%s + (unsigned long)q * %d) %% NPOOL];' % (
            j, j, UT[nv['ssz'][j]], 'rx' if j == 0 else 'ry', 1 if j == 0 else 1))
    if k == 'acc':
        src.append('  unsigned int cell = (unsigned int)pool[ry % NPOOL]; old_cell = cell; ex->dest_ptrs[0] = &cell;')
    else:
        for j in range(nd):
            cnt = nv['dst_count']
            src.append('  long cd%d = (long)(%s); if (cd%d < 0 || cd%d > 4000000) return 0;' % (j, cnt, j, j))
            src.append('  %s *D%d = malloc(cd%d * %d + 0); ex->dest_ptrs[%d] = D%d; memset(D%d, 0xA5, cd%d * %d);' % (
                UT[nv['dsz'][j]], j, j, nv['dsz'][j], j, j, j, j, nv['dsz'][j]))
    src.append('  %s;' % (call or '%s(ex, offset, n)' % fn))
    src.append('  int bad = 0;')
    if k == 'acc':
        e2 = ens
        src.append('  if (!(%s)) { bad = 1; printf("MISMATCH %s n=%%d offset=%%d old=%%u new=%%u rx=%%u ry=%%u\\n", n, offset, old_cell, cell, rx, ry); }' % (e2, fn))
    elif P:
        src.append('  for (__gk = 0; __gk < (unsigned long)n; __gk++) if (!(%s)) { bad = 1;' % P)
        src.append('    printf("MISMATCH %s n=%%d offset=%%d k=%%lu rx=%%u ry=%%u s1=%%ld s2=%%ld", n, offset, __gk, rx, ry, s1, s2);' % fn)
        src.append('    printf("\\n"); break; }')
    if k == 'store':
        for j in range(nd):
            src.append('  for (long q = 0; q < cd%d; q++) if ((q < offset || q >= offset + n) && ((unsigned char*)D%d)[q*%d] != 0xA5) { bad = 1; printf("FRAME %s wrote dest[%%ld] outside [offset,offset+n)\\n", q); break; }' % (j, j, nv['dsz'][j], fn))
    for j in range(ns):
        if j not in scalars:
            src.append('  free(S%d);' % j)
    if k != 'acc':
        for j in range(nd):
            src.append('  free(D%d);' % j)
    src.append('  return bad; }')
    hn = int(hints.get('n', 24) or 24)
    ho = int(hints.get('offset', 0) or 0)
    hi = int(hints.get('i', 0) or 0)
    nlist = sorted(set([0, 1, 2, 17, 40, min(max(hn, 0), 5000), min(max(hi + 1, 0), 5000), min(max(hi + 2, 0), 5000)]))
    if nv['nmax']:
        nlist = sorted(set(min(x, nv['nmax']) for x in nlist) | {nv['nmax']})
    olist = sorted(set([0, 3, min(max(ho, 0), 5000)]))
    src.append('int main(void) { long tot = 0; static const int ns[] = {%s}; static const int os[] = {%s};' % (
        ', '.join(map(str, nlist)), ', '.join(map(str, olist))))
    src.append('  static const long svals[] = {0, 1, 2, 3, 5, 7, 8, 15, 16, 31, 32, 63, -1, 65536, 98304, 40000, 256, %d};' % int(hints.get('s', 0) or 0))
    src.append('  for (unsigned a = 0; a < sizeof(ns)/sizeof(ns[0]); a++) for (unsigned o = 0; o < sizeof(os)/sizeof(os[0]); o++)')
    src.append('   for (unsigned rx = 0; rx < NPOOL; rx++) for (unsigned ry = 0; ry < NPOOL; ry += %d)' % (1 if ns - len(scalars) >= 2 or k == 'acc' else 1000000))
    if scalars:
        src.append('    for (unsigned si = 0; si < sizeof(svals)/sizeof(svals[0]); si++) for (unsigned sj = 0; sj < %s; sj++) {' % (
            'sizeof(svals)/sizeof(svals[0])' if len(scalars) > 1 else '1'))
        src.append('      tot++; if (trial(ns[a], os[o], rx, ry, svals[si], svals[sj])) { fails++; if (fails >= 3) goto done; } }')
    else:
        src.append('    { tot++; if (trial(ns[a], os[o], rx, ry, 0, 0)) { fails++; if (fails >= 3) goto done; } }')
    src.append('  done: printf("TRIALS %ld FAILS %ld\\n", tot, fails); return fails ? 1 : 0; }')
    return '\n'.join(src) + '\n'


def run_native(csrc, extra_cflags=()):
    wd = tempfile.mkdtemp(prefix='orcverif.replay.', dir=core.SCRATCH_ROOT)
    try:
        p = os.path.join(wd, 'replay.c')
        with open(p, 'w') as f:
            f.write(csrc)
        exe = os.path.join(wd, 'replay')
        cmd = ['gcc', '-O1', '-g', '-fsanitize=address,undefined', '-fno-sanitize-recover=undefined', '-w'] + \
            [x for x in core.cc_flags() if not x.startswith('-DORC_VERIF_CBMC')] + list(extra_cflags) + [p, '-lm', '-o', exe]
        r = subprocess.run(cmd, capture_output=True, text=True, timeout=300)
        if r.returncode != 0:
            return {'reproduced': False, 'error': 'native build failed', 'log': r.stderr[-2000:]}
        env = dict(os.environ, ASAN_OPTIONS='detect_leaks=0', UBSAN_OPTIONS='print_stacktrace=0')
        r = subprocess.run([exe], capture_output=True, text=True, timeout=600, env=env)
        out = (r.stdout + r.stderr)[-3000:]
        return {'reproduced': r.returncode != 0, 'exit': r.returncode, 'output': out, 'source': csrc if r.returncode != 0 else None}
    except subprocess.TimeoutExpired:
        return {'reproduced': False, 'error': 'native replay timeout'}
    finally:
        shutil.rmtree(wd, ignore_errors=True)


def replay_unit(res, fos):
    unit = res.unit
    if not hasattr(unit, 'native'):
        return None
    fn = unit.native['fn']
    tv, hints = trace_ints(res, fn)
    pool = tv + [b for b in BOUNDARY if b not in tv]
    csrc = native_source(unit, pool, hints, repo_file=getattr(unit, 'native_file', None), call=getattr(unit, 'native_call', None))
    r = run_native(csrc, getattr(unit, 'native_cflags', ()))
    r['inputs_from_trace'] = {'values': tv[:16], 'hints': hints}
    return r


def replay_file(path):
    rep = json.load(open(path))
    nr = rep.get('native_replay') or {}
    src = nr.get('source')
    print('replay of %s: obligation(s) %s' % (rep.get('unit'), [f['property'] for f in rep.get('failed_obligations', [])]))
    if not src:
        print('no native reproduction was recorded for this violation (no-failing-input-found); verifier output is in the file')
        return 0
    r = run_native(src)
    print(r.get('output', r.get('error')))
    print('REPRODUCED' if r.get('reproduced') else 'not reproduced')
    return 1 if r.get('reproduced') else 0
