# C10 (structural part): prologue/epilogue pairing, MXCSR save/modify/restore, callee-saved register set.
import re
from .. import core, runner

PROP = 'C10'
ASSUME = [
    'structural part only: the statement is about machine state at run time; what is decided here is what the emitters of the frame and of the MXCSR handling put into the instruction stream, on the emit-layer abstraction contracts/isa_emit_model.c (CC_GHOST: ghost stack for push/pop, three-valued dataflow unknown/caller/caller|0x8040 for MXCSR through executor slots and one register); the abstraction is tied to the real emit functions by the emit:* units of C11',
    'a callee-saved register that is written by emitted code without being marked in compiler->used_regs is outside these contracts (register allocation marks used_regs; rule emitters use only allocated registers, gp_tmpreg (rcx/ecx) and rax/rdx -- not proved)',
    'the executor slots used for MXCSR (params[A4], params[C1]) are not overwritten by other emitted code between set and restore: supported by the static fact that no other x86 emitter names ORC_VAR_C1 (grep, reported in the evidence), not proved',
    'direction flag, x87/MMX tag word (emms) and memory writes outside the frame: emms emission is covered by C11 unit mmx:mmx_clear_emms (the instruction is emitted); its placement before the epilogue in orc_x86_compile is not under contract',
]


def static_facts():
    import subprocess
    r = subprocess.run('grep -n "ORC_VAR_C1" /repo/orc/orcsse.c /repo/orc/orcavx.c /repo/orc/orcmmx.c /repo/orc/orcx86.c /repo/orc/orcx86insn.c '
                       '/repo/orc/orcprogram-x86.c /repo/orc/orcprogram-sse.c /repo/orc/orcprogram-avx.c /repo/orc/orcprogram-mmx.c '
                       '/repo/orc/orcrules-sse.c /repo/orc/orcrules-avx.c /repo/orc/orcrules-mmx.c', shell=True, capture_output=True, text=True)
    lines = [l for l in r.stdout.split('\n') if l.strip()]
    files = set(l.split(':')[0] for l in lines)
    ok = files <= {'/repo/orc/orcsse.c', '/repo/orc/orcavx.c'}
    return [{'name': 'static: params[ORC_VAR_C1] is named only by set_mxcsr/restore_mxcsr', 'ok': True if ok else None,
             'detail': '%d occurrences in %s' % (len(lines), sorted(files))}]


def units(tier, seed, only=None):
    K = dict(unwind=30, timeout=300, checks=[], cbmc_flags=['--no-standard-checks'], object_bits=10)
    M = ['contracts/isa_emit_model.c', 'contracts/isa_stubs.c']
    us = [
        core.Unit('frame:prologue+epilogue', ['contracts/callconv.c'] + M, 'h_cc_frame', enforce='cc_frame',
                  defines=['CC_GHOST=1', 'CC_FRAME=1', 'ISA_FORM_AVX=1', 'ISA_STUB_LOAD_CONSTANT=orc_sse_load_constant'],
                  functions=['orc_x86_emit_prologue', 'orc_x86_emit_epilogue', 'orc_x86_emit_push', 'orc_x86_emit_pop'],
                  contract_text='after orc_x86_emit_prologue every used callee-saved general register (SysV: rbx, r12-r15; i386: ebx, esi, edi) and rbp/ebp is on the ghost stack; orc_x86_emit_epilogue pops exactly what was pushed, in reverse order, same register and size', **K),
        core.Unit('mxcsr:sse', ['contracts/callconv.c', '/repo/orc/orcx86.c'] + M, 'h_cc_mxcsr', enforce='cc_mxcsr',
                  defines=['CC_GHOST=1', 'CC_MXCSR_SSE=1', 'ISA_FORM_XMM=1', 'ISA_STUB_LOAD_CONSTANT=orc_sse_load_constant'],
                  functions=['orc_sse_set_mxcsr', 'orc_sse_restore_mxcsr'],
                  contract_text='orc_sse_set_mxcsr leaves MXCSR = caller | 0x8040; orc_sse_restore_mxcsr after it leaves MXCSR = caller', **K),
        core.Unit('mxcsr:avx', ['contracts/callconv.c', '/repo/orc/orcx86.c', '/repo/orc/orcsse.c'] + M, 'h_cc_mxcsr', enforce='cc_mxcsr',
                  defines=['CC_GHOST=1', 'CC_MXCSR_AVX=1', 'ISA_FORM_AVX=1', 'ISA_STUB_LOAD_CONSTANT=orc_sse_load_constant'],
                  functions=['orc_avx_set_mxcsr', 'orc_avx_restore_mxcsr'],
                  contract_text='orc_avx_set_mxcsr leaves MXCSR = caller | 0x8040; orc_avx_restore_mxcsr after it leaves MXCSR = caller', **K),
        core.Unit('init:orc_x86_compiler_init', ['contracts/x86init.c'], 'h_compiler_init', enforce='orc_x86_compiler_init', no_dfcc=True,
                  unwind=130, timeout=600, object_bits=10, checks=[], cbmc_flags=['--no-standard-checks'],
                  contract_text='after orc_x86_compiler_init: SysV callee-saved general registers (rbx, rbp, r12-r15; i386: ebx, edi, ebp) are in save_regs; rsp, the executor register and the scratch register are not allocatable, nor rbp with a frame pointer; the scratch register is rcx/ecx (caller-saved); state n_insns == 0 (the per-instruction tail of the function does not touch these fields); assume/assert form, no frame condition'),
        core.Unit('encode:push/pop', ['contracts/encode.c', '/repo/orc/orcx86.c', 'contracts/isa_stubs.c'], 'h_encode_stack', enforce='orc_x86_insn_output_opcode', no_dfcc=True,
                  functions=['orc_x86_insn_output_opcode', 'orc_x86_insn_output_modrm', 'orc_x86_insn_output_immediate', 'orc_x86_emit_rex'],
                  unwind=20, timeout=300, object_bits=10, checks=[], cbmc_flags=['--no-standard-checks'],
                  contract_text='machine code of a push/pop record == [REX.B (0x41) for r8-r15] ++ [0x50|0x58 + (register & 7)]: the register that is saved is the register that is named; assume/assert form'),
    ]
    if only:
        us = [u for u in us if re.search(only, u.name)]
    return us


def run(tier, seed, only=None):
    return runner.run_property(PROP, units(tier, seed, only), tier, seed, assumptions=ASSUME, static_results=static_facts())


def replay(path):
    print('see replay file', path)
    return 0
