# C19: the default target is the best backend the CPU really supports
import re
from .. import core, runner

PROP = 'C19'
SRC = ['contracts/registry.c']
ASSUME = [
    'target registry checked with at most 4 registered targets whose names are strings of at most 7 characters (longest real name: "altivec"), loops fully unwound -- labelled bounded; capacity ORC_N_TARGETS is a precondition of orc_target_register (the property does not quantify beyond it)',
    '_orc_getenv is a nondeterministic model: unset, or a heap copy of an arbitrary string of < 8 characters (covers every registered name, unknown names and the empty string); it records which variable names are consulted; the documented name is read from doc/running.xml on every run',
    'cpuid / xgetbv are nondeterministic in CBMC (inline asm / intrinsic without model): one run covers every CPU; assumed: results are a function of (leaf, subleaf)',
]


def documented_envvar():
    """The environment variable that doc/running.xml documents for overriding the default target."""
    txt = open('/repo/doc/running.xml').read()
    found = []
    for m in re.finditer(r'<formalpara id="(\w+)">(.*?)</formalpara>', txt, re.S):
        if re.search(r'override\s+the\s+default\s+target', m.group(2)):
            found.append(m.group(1))
    if len(found) != 1:
        raise core.ToolError('doc/running.xml: expected exactly one variable documented as overriding the default target, found %r' % found)
    return found[0]


def units(tier, seed, only=None):
    doc = documented_envvar()
    B = 'at most 4 registered targets, names < 8 characters; loops fully unwound'
    us = [
        core.Unit('orc_target_register', SRC, 'h_target_register', enforce='orc_target_register', unwind=10, timeout=300),
        core.Unit('orc_target_get_by_name', SRC, 'h_target_get_by_name', enforce='orc_target_get_by_name', unwind=10, timeout=300, bounded=B),
        core.Unit('orc_target_get_default', SRC, 'h_target_get_default', enforce='orc_target_get_default', unwind=26, timeout=300, bounded=B,
                  replace=['orc_target_get_by_name'], cbmc_flags=['--memory-leak-check'], defines=['DOC_ENVVAR="%s"' % doc]),
    ]
    from . import c19_cpu
    us += c19_cpu.units(tier, seed)
    if only:
        us = [u for u in us if re.search(only, u.name)]
    return us


def run(tier, seed, only=None):
    return runner.run_property(PROP, units(tier, seed, only), tier, seed, assumptions=ASSUME)


def replay(path):
    print('see replay file', path)
    return 0
