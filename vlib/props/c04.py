# C04: the C source Orc generates computes what emulation computes (per opcode), and the checked-in emulator is
# exactly what the generator produces
import re
from .. import core, runner, cgen
from ..emu import OPS
from spec.opcodes import ERRATA
from . import c02

PROP = 'C04'
ASSUME = [
    'verified text = output of the real orcc built natively from the current tree on every run (scratch build, removed afterwards), run on a generated .orc file with one function per sys opcode; both emitted forms are put under the same SPEC contracts as the emulator (C02/C18): the DISABLE_ORC implementation (bare C prototype) and the executor-based _backup_ function',
    'NOT covered: programs of more than one instruction (temporaries, chaining, constant pooling), x2/x4 prefixes, 2-D programs, float parameters; orcc option modes other than --implementation',
    'regeneration identity: tools/generate-emulation built from the current tree must reproduce orc/orcemulateopcodes.c byte for byte (supporting native fact)',
    'same SPEC table, caps and float caveats as C02/C18',
]
SKIP_VALUE = {'sqrtf', 'sqrtd', 'convwf'}
HARD_FLOAT = {'mulf', 'divf', 'muld', 'divd'}
# the 32x32->64 high multiplies are decided unbounded for the emulator (C02) but not within the budget for the executor-based
# form: bounded stand-in here
C04_BOUNDED = {'mulhsl': (2, 'kissat'), 'mulhul': (2, 'kissat')}


def units(tier, seed, only=None):
    info = cgen.native_build()
    units.info = info
    us = []
    names = [n for n in OPS if n not in cgen.SKIP]
    for name in names:
        op = OPS[name]
        if name in SKIP_VALUE or name in c02.THOROUGH_ONLY or (name in HARD_FLOAT and tier == 'quick'):
            continue
        for variant in ('bare', 'exec'):
            nb = None
            be = None
            if name in c02.HARD_BOUNDED:
                nb, be = c02.HARD_BOUNDED[name]
            elif name in C04_BOUNDED:
                nb, be = C04_BOUNDED[name]
            u = cgen.gen_unit(name, variant, tier, bounded_n=nb)
            if be:
                u.backends = [be] + [b for b in ('kissat', 'z3', 'cvc5') if b != be]
                u.timeout = 600
            elif name in c02.SLOW_KISSAT or op.hard:
                u.backends = ['kissat', 'minisat']
                u.timeout = 400
            if name in HARD_FLOAT:
                u.optional = True        # thorough-tier attempt only
                u.timeout = 900
                u.backends = ['kissat']
            us.append(u)
    us.append(cgen.gen_unit_accw_int(tier))
    if only:
        us = [u for u in us if re.search(only, u.name)]
    return us


def run(tier, seed, only=None):
    try:
        us = units(tier, seed, only)
    except core.ToolError as e:
        print('C04: tool error: %s' % e)
        return 2
    info = units.info
    static = [{'name': 'regeneration-identity', 'ok': bool(info['regen_identical']),
               'detail': 'generate-emulation (built from the current tree) vs orc/orcemulateopcodes.c: ' + ('identical' if info['regen_identical'] else 'DIFFERENT\n' + info['regen_diff']),
               'violation_text': 'checked-in orc/orcemulateopcodes.c differs from generate-emulation output',
               'replay': {'reproduced': True, 'diff': info['regen_diff']}, 'reproduced': True}]
    return runner.run_property(PROP, us, tier, seed, assumptions=ASSUME, static_results=static,
                               extra_cov={'reference_errata': ERRATA})


def replay(path):
    print('see replay file', path)
    return 0
