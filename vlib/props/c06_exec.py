from .. import core
SRC = ['contracts/executor.c']


def units(tier, seed):
    K = dict(timeout=400, object_bits=10, cbmc_flags=['--no-array-field-sensitivity'])
    FP = ['orc_executor_run.function_pointer_call.1/stub_native,stub_backup,orc_executor_emulate']
    return [
        core.Unit('orc_executor_run', SRC, 'h_run', enforce='orc_executor_run', replace=['orc_executor_emulate'], **K),
        core.Unit('orc_executor_run_backup', SRC, 'h_run_backup', enforce='orc_executor_run_backup', replace=['orc_executor_emulate'], **K),
        core.Unit('orc_executor_set_program', SRC, 'h_set_program', enforce='orc_executor_set_program', **K),
    ]
