# C16: object lifecycle -- every resource released exactly once
import re
from .. import core, runner

PROP = 'C16'
SRC = ['contracts/program.c']
ASSUME = [
    'ownership scheme: each operation is run from an ARBITRARY owned state (every pointer field the object owns is NULL or a distinct live heap block, built by the harness -- not a bounded history), followed by the proved destructor, under CBMC\'s memory-leak, double-free and deallocated-dereference checks; arbitrary histories follow because every operation re-establishes the owned state (transitivity of requires/ensures, pen-and-paper)',
    'orc_code_free is a stub here (asserts the object is live, frees it); its real body is checked in unit orc_code_free',
    'strdup returns a fresh 8-byte string; orc_malloc aborts on failure',
    'not covered: compile/recompile paths of orc_compiler_compile_program other than the early error return, executor runs, resident-memory growth, mmap\'ed region accounting',
]


def c17gen():
    from . import c17
    c17.gen_source()
    return c17.GEN


def units(tier, seed, only=None):
    K = dict(timeout=900, object_bits=12, unwind=66, cbmc_flags=['--memory-leak-check'])
    us = [
        # destructor from an arbitrary owned state: nothing leaks, nothing is freed twice (harness-level obligations;
        # the per-field was_freed contract is intractable -- out of memory -- and not needed for these)
        core.Unit('orc_program_free', SRC, 'h_orc_program_free', enforce=None, functions=['orc_program_free'], **K),
        core.Unit('orc_program_set_name', SRC, 'h_orc_program_set_name', enforce=None, functions=['orc_program_set_name', 'orc_program_free'], **K),
        core.Unit('orc_program_set_backup_name', SRC, 'h_orc_program_set_backup_name', enforce=None, functions=['orc_program_set_backup_name', 'orc_program_free'], **K),
        core.Unit('orc_program_set_type_name', SRC, 'h_orc_program_set_type_name_own', enforce=None, functions=['orc_program_set_type_name', 'orc_program_free'], **K),
        core.Unit('orc_program_reset', SRC, 'h_orc_program_reset', enforce=None, functions=['orc_program_reset', 'orc_program_free'], **K),
        core.Unit('orc_program_take_code', SRC, 'h_orc_program_take_code', enforce=None, functions=['orc_program_take_code', 'orc_program_free'], **K),
        core.Unit('orc_program_add_*', SRC, 'h_add_then_free', enforce=None, functions=['orc_program_add_temporary', 'orc_program_add_source', 'orc_program_add_destination', 'orc_program_add_parameter', 'orc_program_add_accumulator', 'orc_program_free'], **K),
        # the compiler object on the early error path of orc_compiler_compile_program (real function, extracted copy of
        # orccompiler.c with the variadic error function made non-variadic, see C17)
        core.Unit('orc_compiler_compile_program:error-path', ['contracts/regalloc.c'], 'hp_compile_program_with_error', enforce='orc_compiler_compile_program',
                  no_dfcc=True, defines=['REGALLOC_SRC="%s"' % c17gen()], unwind=10, timeout=600, object_bits=10, checks=[],
                  cbmc_flags=['--no-standard-checks', '--memory-leak-check', '--pointer-check'],
                  contract_text='a program that already carries an error: result UNKNOWN_PARSE and the compiler object handed in is released (memory-leak check); assume/assert form'),
    ]
    if only:
        us = [u for u in us if re.search(only, u.name)]
    return us


def run(tier, seed, only=None):
    return runner.run_property(PROP, units(tier, seed, only), tier, seed, assumptions=ASSUME)


def replay(path):
    print('see replay file', path)
    return 0
