def units(tier, seed):
    return []
