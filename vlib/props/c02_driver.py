from .. import core


def units(tier, seed):
    return [core.Unit('orc_executor_emulate', ['contracts/emulate_driver.c'], 'h_emulate', enforce=None, no_dfcc=True,
                      functions=['orc_executor_emulate', 'load_constant'], unwind=97, timeout=900, object_bits=12, backends=['kissat', 'minisat'],
                      defines=['NMAX_DRV=%d' % (17 if tier == 'quick' else 40)],
                      cbmc_flags=['--memory-leak-check'],
                      bounded='one instruction of arbitrary shape (1-2 destinations, 1-2 sources, x1/x2/x4, every operand kind; operands among the first two slots of each variable class), n <= %d, m <= 2; loops fully unwound' % (17 if tier == 'quick' else 40),
                      contract_text='call-side obligations of the emulation driver checked by a stub standing for the opcode function: chunk order and size, lane scaling, operand footprints, staging of constants/parameters, accumulator cells, everything freed')]
