# C11: target feature flags bound the instructions that are emitted.
#
# Contract on every rule emitter and every backend helper that emits instructions:
#   for every compiler state whose target flags satisfy the flags the function was registered under,
#   every instruction record the function appends to the compiler's output (ghost index g_k over the records) needs
#   only instruction-set extensions granted by those flags,
# where "needs" is the independent ISA table spec/x86isa.py (Intel SDM) keyed by opcode enumerator, encoding prefix
# and register file of the target.  The real emit layer (orc/orcx86insn.c: orc_x86_emit_cpuinsn_*, orc_vex_emit_*)
# runs unmodified and writes the records that the postcondition inspects.
import json, os, re, subprocess, sys
from .. import core, runner

PROP = 'C11'
GEN = os.path.join(core.VERIF, 'out', 'gen', 'c11')
CAP = 160

ASSUME = [
    'ISA table /verif/spec/x86isa.py (Intel SDM vol. 2 feature-flag column per encoding) is the reference; strict reading of the statement: an SSSE3 / SSE4.1 / SSE4.2 / AVX2 / MMXEXT instruction needs its own flag bit, no implication between bits except SSE2-class MM instructions (paddq/psubq/pmuludq mm), which are accepted under any flag that implies SSE2 (SSSE3, SSE4.1, SSE4.2)',
    'the rule is called with target flags that contain the required flags of (one of) the rule set(s) it is registered in -- guaranteed by orc_target_get_rule (contract in C20/C17); user argument ranges over the values it is registered with; the instruction and the variables it names are arbitrary',
    'callees outside the included files (orc_compiler_get_temp_reg, orc_compiler_get_constant, orc_compiler_get_temp_constant, orc_compiler_try_get_constant_long, orc_compiler_label_new, ...) have no body in the unit: their results are arbitrary; instructions they emit through the target\'s load_constant functions are covered by the units of those functions (modular: the union of allowed instruction sets is allowed)',
    'compiler->loop_shift and compiler->insn_shift in [0,5] (largest register / smallest element); loops in emitters unwound 40 times with unwinding assertions',
    'the target flags contain the required flags of the rule set that holds the load/store rules (derived from the registration function on every run): without them no program compiles, and the statement quantifies over flag subsets under which the program still compiles',
    'emit layer abstraction contracts/isa_emit_model.c: every orc_x86_emit_cpuinsn_* / orc_vex_emit_* call appends one record carrying (opcode index, prefix); proved of the real functions by the emit:* units',
    'second half of the statement (same results under every flag subset) is machine-code semantics: not covered',
    'the loop skeleton in orc/orcprogram-x86.c emits general-purpose instructions only through orc_x86_emit_* and is not under this contract',
]

CONFIG_DIR = None


def cpp(path, defines=()):
    cmd = ['gcc', '-E', '-P', '-I/repo', '-I' + core.config_include_dir(), '-DHAVE_CONFIG_H', '-DORC_ENABLE_UNSTABLE_API',
           '-D_GNU_SOURCE', '-DBUILDING_ORC'] + list(defines) + [path]
    r = subprocess.run(cmd, capture_output=True, text=True)
    if r.returncode != 0:
        raise RuntimeError('cpp failed: ' + r.stderr[-2000:])
    return r.stdout


def parse_registrations(pp, regfn):
    """-> dict emitter function -> list of (flags expr, user expr, opcode name), from the preprocessed text."""
    m = re.search(r'\b' + regfn + r'\s*\(\s*OrcTarget\s*\*\s*target\s*\)\s*\{', pp)
    if not m:
        raise RuntimeError('registration function %s not found' % regfn)
    i = m.end()
    depth = 1
    j = i
    while depth and j < len(pp):
        if pp[j] == '{':
            depth += 1
        elif pp[j] == '}':
            depth -= 1
        j += 1
    body = pp[i:j - 1]
    out = {}
    cur = None
    n_sets = n_regs = 0
    for st in body.split(';'):
        st = ' '.join(st.split())
        ms = re.search(r'rule_set = orc_rule_set_new \(.*, target, (.*)\)$', st)
        if ms:
            cur = ms.group(1).strip()
            n_sets += 1
            continue
        mr = re.search(r'orc_rule_register \(rule_set, "(\w+)" ?, (\w+), (.*)\)$', st)
        if mr:
            if cur is None:
                raise RuntimeError('registration before rule set: ' + st)
            out.setdefault(mr.group(2), []).append((cur, mr.group(3).strip(), mr.group(1)))
            n_regs += 1
            continue
        if 'orc_rule_register' in st or 'orc_rule_set_new' in st:
            raise RuntimeError('unparsed registration statement: ' + st)
    if n_sets < 2 or n_regs < 100:
        raise RuntimeError('registration parse: %d sets %d registrations' % (n_sets, n_regs))
    return out


TARGETS = {
    'sse': dict(rules='/repo/orc/orcrules-sse.c', regfn='orc_compiler_sse_register_rules', form='XMM',
                extra=['/repo/orc/orcsse.c', '/repo/orc/orcx86.c'], base='ORC_TARGET_SSE_SSE2', loadc='orc_sse_load_constant'),
    'mmx': dict(rules='/repo/orc/orcrules-mmx.c', regfn='orc_compiler_mmx_register_rules', form='MM',
                extra=['/repo/orc/orcmmx.c', '/repo/orc/orcx86.c'], base='ORC_TARGET_MMX_MMX', loadc='orc_mmx_load_constant'),
    'avx': dict(rules='/repo/orc/orcrules-avx.c', regfn='orc_compiler_avx_register_rules', form='AVX',
                extra=['/repo/orc/orcavx.c', '/repo/orc/orcsse.c', '/repo/orc/orcx86.c'],
                base='ORC_TARGET_AVX_AVX', loadc='orc_avx_load_constant'),
}

CLASSES = ['MMX', 'MMXEXT', 'SSE', 'SSE2', 'SSE3', 'SSSE3', 'SSE41', 'SSE42', 'AVX', 'AVX2', 'NA']


def rule_contract(fn, regs):
    alts = []
    for flags in sorted(set(r[0] for r in regs)):
        users = sorted(set(r[1] for r in regs if r[0] == flags))
        ucond = ' || '.join('user == (void *)(%s)' % u for u in users)
        alts.append('(((unsigned)p->target_flags & (unsigned)(%s)) == (unsigned)(%s) && (%s))' % (flags, flags, ucond))
    req = ' || '.join(alts)
    o = ['static void %s (OrcCompiler *p, void *user, OrcInstruction *insn)' % fn,
         'EMIT_REQUIRES(p)',
         '__CPROVER_requires(__CPROVER_rw_ok(insn, sizeof(OrcInstruction)))',
         '__CPROVER_requires(__CPROVER_r_ok(insn->opcode, sizeof(OrcStaticOpcode)))',
         '__CPROVER_requires(ARG_OK(insn->dest_args[0]) && ARG_OK(insn->dest_args[1]))',
         '__CPROVER_requires(ARG_OK(insn->src_args[0]) && ARG_OK(insn->src_args[1]))',
         '__CPROVER_requires(ARG_OK(insn->src_args[2]) && ARG_OK(insn->src_args[3]))',
         '__CPROVER_requires(%s)' % req,
         'EMIT_ENSURES(p);']
    return '\n'.join(o)


def base_flags(regs):
    """Required flags of the rule set(s) that hold the load and store rules: no program compiles without them."""
    out = set()
    for fn, l in regs.items():
        for flags, user, op in l:
            if op in ('loadb', 'storeb'):
                out.add(flags)
    if len(out) != 1:
        raise RuntimeError('load/store rules registered under %r' % (out,))
    return out.pop()


_reg_cache = {}


def registrations(tname):
    if tname not in _reg_cache:
        t = TARGETS[tname]
        os.makedirs(GEN, exist_ok=True)
        from spec import x86isa
        with open(os.path.join(GEN, 'isa_table.h'), 'w') as f:
            f.write(x86isa.gen_header())
        regs = parse_registrations(cpp(t['rules']), t['regfn'])
        _reg_cache[tname] = (regs, base_flags(regs))
    return _reg_cache[tname]


def gen_rules_tu(tname):
    t = TARGETS[tname]
    regs, base = registrations(tname)
    path = os.path.join(GEN, '%s_rules.c' % tname)
    o = ['/* generated by vlib/props/c11.py from the registrations in %s -- do not edit */' % t['rules'],
         '#include "contracts/isa.h"']
    for fn in sorted(regs):
        o.append(rule_contract(fn, regs[fn]))
    o.append('#include "%s"' % t['rules'])
    o.append('#include "stubs/log_stub.c"')
    for fn in sorted(regs):
        o.append('void h_%s(void) { OrcCompiler *p = mk_compiler (); void *user; OrcInstruction *insn = mk_insn (); %s(p, user, insn); REACH(); }' % (fn, fn))
    with open(path, 'w') as f:
        f.write('\n'.join(o) + '\n')
    return path, regs, base


# ---- backend helpers that emit instructions (not registered as rules) ---------------------------------------------
HELPERS = {
    'sse': [('/repo/orc/orcsse.c', ['orc_x86_emit_mov_memoffset_sse', 'orc_x86_emit_mov_memindex_sse', 'orc_x86_emit_mov_sse_memoffset',
                                    'orc_sse_set_mxcsr', 'orc_sse_restore_mxcsr'], []),
            ('/repo/orc/orcprogram-sse.c', ['sse_init_accumulator', 'sse_reduce_accumulator', 'orc_sse_load_constant', 'sse_load_constant_long',
                                            'sse_move_register_to_memoffset', 'sse_move_memoffset_to_register'], ['/repo/orc/orcsse.c'])],
    'avx': [('/repo/orc/orcavx.c', ['orc_x86_emit_mov_memoffset_avx', 'orc_x86_emit_mov_memindex_avx', 'orc_x86_emit_mov_avx_memoffset',
                                    'orc_avx_emit_broadcast', 'orc_avx_set_mxcsr', 'orc_avx_restore_mxcsr'], ['/repo/orc/orcsse.c']),
            ('/repo/orc/orcprogram-avx.c', ['avx_init_accumulator', 'avx_reduce_accumulator', 'orc_avx_load_constant', 'avx_load_constant_long',
                                            'avx_move_register_to_memoffset', 'avx_move_memoffset_to_register'],
             ['/repo/orc/orcavx.c', '/repo/orc/orcsse.c'])],
    'mmx': [('/repo/orc/orcmmx.c', ['orc_x86_emit_mov_memoffset_mmx', 'orc_x86_emit_mov_memindex_mmx', 'orc_x86_emit_mov_mmx_memoffset'], []),
            ('/repo/orc/orcprogram-mmx.c', ['mmx_init_accumulator', 'mmx_reduce_accumulator', 'orc_mmx_load_constant', 'mmx_load_constant_long',
                                            'mmx_move_register_to_memoffset', 'mmx_move_memoffset_to_register', 'mmx_clear_emms'],
             ['/repo/orc/orcmmx.c'])],
}
# target-independent general-purpose emitters: must need no SIMD extension at all, whatever the flags
GP_HELPERS = ('/repo/orc/orcx86.c', ['orc_x86_emit_push', 'orc_x86_emit_pop', 'orc_x86_emit_mov_memoffset_reg', 'orc_x86_emit_mov_reg_memoffset',
                                     'orc_x86_emit_add_imm_reg', 'orc_x86_emit_add_reg_reg_shift', 'orc_x86_emit_cmp_imm_reg',
                                     'orc_x86_emit_cmp_imm_memoffset', 'orc_x86_emit_dec_memoffset', 'orc_x86_emit_prologue',
                                     'orc_x86_emit_epilogue'])


def find_signature(pp, fn):
    """(is_static, return type, [(type, name)]) of the definition of fn in preprocessed text pp (last active definition)."""
    ms = list(re.finditer(r'(static\s+)?(\w[\w \*]*?)\s*\b' + re.escape(fn) + r'\s*\(([^)]*)\)\s*\{', pp))
    if not ms:
        raise RuntimeError('definition of %s not found' % fn)
    m = ms[-1]
    params = []
    for prm in m.group(3).split(','):
        prm = ' '.join(prm.split())
        mm = re.match(r'(.*?)(\w+)$', prm)
        params.append((mm.group(1).strip(), mm.group(2)))
    return bool(m.group(1)), m.group(2).strip(), params


def helper_decl_and_harness(pp, fn, gp=False):
    static, ret, params = find_signature(pp, fn)
    if 'OrcCompiler' not in params[0][0]:
        raise RuntimeError('%s: first parameter is not the compiler' % fn)
    pname = params[0][1]
    proto = '%s%s %s (%s)' % ('static ' if static else '', ret, fn, ', '.join('%s %s' % (t, n) for t, n in params))
    o = [proto, 'EMIT_REQUIRES(%s)' % pname]
    decl = ['OrcCompiler *%s = mk_compiler ();' % pname]
    for t, n in params[1:]:
        if '*' in t:
            base = t.replace('const', '').replace('*', '').strip()
            o.append('__CPROVER_requires(__CPROVER_rw_ok(%s, sizeof(%s)))' % (n, base))
            decl.append('%s *%s = malloc (sizeof (%s)); __CPROVER_assume (%s != NULL);' % (base, n, base, n))
        else:
            decl.append('%s %s;' % (t.replace('const', '').strip(), n))
    if fn == 'orc_x86_emit_epilogue':
        # vzeroupper (AVX) is emitted exactly for the avx target, nothing else beyond general-purpose instructions
        o.append('__CPROVER_requires(__CPROVER_r_ok(%s->target, sizeof(OrcTarget)) && __CPROVER_r_ok(%s->target->name, 8))' % (pname, pname))
        o.append('__CPROVER_requires(g_is_avx == (%s->target->name[0] == \'a\' && %s->target->name[1] == \'v\' && %s->target->name[2] == \'x\'))' % (pname, pname, pname))
        o.append('__CPROVER_ensures((g_need & ~NEED_AVX) == 0)')
        o.append('__CPROVER_ensures(((g_need & NEED_AVX) != 0) == (g_is_avx != 0));')
        decl.append('OrcTarget *tg = malloc (sizeof (OrcTarget)); char *nm = malloc (8); __CPROVER_assume (tg != NULL && nm != NULL); nm[7] = 0; tg->name = nm; %s->target = tg; g_is_avx = (nm[0] == \'a\' && nm[1] == \'v\' && nm[2] == \'x\');' % pname)
    else:
        o.append('GP_ENSURES(%s);' % pname if gp else 'EMIT_ENSURES(%s);' % pname)
    h = 'void h_%s(void) { %s %s (%s); REACH(); }' % (fn, ' '.join(decl), fn, ', '.join(n for t, n in params))
    return '\n'.join(o), h


def gen_helper_tu(tag, src, fns, gp=False):
    pp = cpp(src)
    path = os.path.join(GEN, '%s_%s.c' % (tag, os.path.basename(src).replace('.c', '').replace('-', '_')))
    o = ['/* generated by vlib/props/c11.py from the definitions in %s -- do not edit */' % src, '#include "contracts/isa.h"']
    hs = []
    for fn in fns:
        d, h = helper_decl_and_harness(pp, fn, gp)
        o.append(d)
        hs.append(h)
    o.append('#include "%s"' % src)
    o.append('#include "stubs/log_stub.c"')
    o += hs
    with open(path, 'w') as f:
        f.write('\n'.join(o) + '\n')
    return path


def helper_units(only):
    us = []
    for tname in ('sse', 'avx', 'mmx'):
        t = TARGETS[tname]
        regs, base = registrations(tname)
        for src, fns, extra in HELPERS[tname]:
            path = gen_helper_tu(tname, src, fns)
            for fn in fns:
                name = '%s:%s' % (tname, fn)
                if only and not re.search(only, name):
                    continue
                defs = ['ISA_FORM_%s=1' % t['form'], 'ISA_BASE_FLAG=(%s)' % base]
                if 'program' not in src:
                    defs.append('ISA_STUB_LOAD_CONSTANT=' + t['loadc'])
                us.append(core.Unit(name, [path] + extra + ['/repo/orc/orcx86.c', 'contracts/isa_emit_model.c', 'contracts/isa_stubs.c'],
                                    'h_' + fn, enforce=fn, unwind=40, timeout=300, checks=[], cbmc_flags=['--no-standard-checks'],
                                    defines=defs, object_bits=10,
                                    contract_text='%s (%s backend helper): every appended instruction record is within the ISA granted by the target flags' % (fn, tname)))
    src, fns = GP_HELPERS
    path = gen_helper_tu('gp', src, fns, gp=True)
    for fn in fns:
        name = 'x86:' + fn
        if only and not re.search(only, name):
            continue
        us.append(core.Unit(name, [path, 'contracts/isa_emit_model.c', 'contracts/isa_stubs.c'], 'h_' + fn, enforce=fn, unwind=40,
                            timeout=300, checks=[], cbmc_flags=['--no-standard-checks'],
                            defines=['ISA_FORM_AVX=1', 'ISA_BASE_FLAG=0', 'ISA_STUB_LOAD_CONSTANT=orc_sse_load_constant'], object_bits=10,
                            contract_text='%s: emits general-purpose instructions only (needs no SIMD extension), for every flag set' % fn))
    return us


# ---- emit layer: the real functions of orc/orcx86insn.c against the abstraction contracts/isa_emit_model.c ---------
def model_functions():
    txt = open(os.path.join(core.VERIF, 'contracts', 'isa_emit_model.c')).read()
    out = []
    for m in re.finditer(r'^void (\w+) \(([^)]*)\) \{ REC \((\w+), (\w+)\);.*\}$', txt, re.M):
        params = []
        for prm in m.group(2).split(','):
            prm = ' '.join(prm.split())
            mm = re.match(r'(.*?)(\w+)$', prm)
            params.append((mm.group(1).strip(), mm.group(2)))
        out.append((m.group(1), params, m.group(3), m.group(4)))
    if len(out) < 20:
        raise RuntimeError('emit model: only %d functions parsed' % len(out))
    return out


def emit_units(only):
    src = '/repo/orc/orcx86insn.c'
    real = set(re.findall(r'^(orc_x86_emit_cpuinsn_\w+|orc_vex_emit_\w+) \(', open(src).read(), re.M))
    mf = model_functions()
    missing = real - set(f[0] for f in mf)
    if missing:
        raise RuntimeError('emit functions without abstraction in contracts/isa_emit_model.c: %s' % sorted(missing))
    path = os.path.join(GEN, 'emit_orcx86insn.c')
    o = ['/* generated by vlib/props/c11.py -- do not edit */', '#include "contracts/isa_common.h"',
         'int g_k; int g_old_idx; int g_old_pfx;', '#define LOG(p) ((OrcX86Insn *)(p)->output_insns)']
    hs = []
    for fn, params, idx, pfx in mf:
        if fn not in real:
            raise RuntimeError('abstraction of a function that does not exist: ' + fn)
        pn = params[0][1]
        o.append('void %s (%s)' % (fn, ', '.join('%s %s' % (t, n) for t, n in params)))
        o.append('__CPROVER_requires(__CPROVER_rw_ok(%s, sizeof(OrcCompiler)))' % pn)
        o.append('__CPROVER_requires(__CPROVER_rw_ok(LOG(%s), 4 * sizeof(OrcX86Insn)))' % pn)
        o.append('__CPROVER_requires(%s->n_output_insns >= 0 && %s->n_output_insns < 4 && %s->n_output_insns_alloc == 4)' % (pn, pn, pn))
        o.append('__CPROVER_requires((g_k >= 0 && g_k < %s->n_output_insns) ==> (g_old_idx == (int)LOG(%s)[g_k].opcode_index && g_old_pfx == (int)LOG(%s)[g_k].prefix))' % (pn, pn, pn))
        if fn == 'orc_x86_emit_cpuinsn_label':
            o.append('__CPROVER_requires(label >= 0 && label < ORC_N_LABELS)')
            o.append('__CPROVER_assigns(%s->n_output_insns, %s->labels_int[label], __CPROVER_object_whole(%s->output_insns))' % (pn, pn, pn))
        else:
            o.append('__CPROVER_assigns(%s->n_output_insns, __CPROVER_object_whole(%s->output_insns))' % (pn, pn))
        o.append('__CPROVER_ensures(%s->n_output_insns == __CPROVER_old(%s->n_output_insns) + 1)' % (pn, pn))
        o.append('__CPROVER_ensures((int)LOG(%s)[__CPROVER_old(%s->n_output_insns)].opcode_index == %s)' % (pn, pn, idx))
        o.append('__CPROVER_ensures((int)LOG(%s)[__CPROVER_old(%s->n_output_insns)].prefix == (int)(%s))' % (pn, pn, pfx))
        for prm, fld in (('size', 'size'), ('imm', 'imm'), ('offset', 'offset'), ('dest', 'dest'), ('src', 'src[0]'), ('src0', 'src[0]')):
            if any(n == prm for t_, n in params[1:]):
                o.append('__CPROVER_ensures(LOG(%s)[__CPROVER_old(%s->n_output_insns)].%s == %s)' % (pn, pn, fld, prm))
        o.append('__CPROVER_ensures((g_k >= 0 && g_k < __CPROVER_old(%s->n_output_insns)) ==> (g_old_idx == (int)LOG(%s)[g_k].opcode_index && g_old_pfx == (int)LOG(%s)[g_k].prefix));' % (pn, pn, pn))
        decl = ['OrcCompiler *%s = malloc (sizeof (OrcCompiler)); OrcX86Insn *lg = malloc (4 * sizeof (OrcX86Insn)); __CPROVER_assume (%s != NULL && lg != NULL); %s->output_insns = lg;' % (pn, pn, pn)]
        for t, n in params[1:]:
            decl.append('%s %s;' % (t.replace('const', '').strip(), n))
        hs.append('void h_%s(void) { %s %s (%s); REACH(); }' % (fn, ' '.join(decl), fn, ', '.join(n for t, n in params)))
    o.append('#include "%s"' % src)
    o.append('#include "stubs/log_stub.c"')
    o += hs
    with open(path, 'w') as f:
        f.write('\n'.join(o) + '\n')
    us = []
    for fn, params, idx, pfx in mf:
        name = 'emit:' + fn
        if only and not re.search(only, name):
            continue
        us.append(core.Unit(name, [path, '/repo/orc/orcx86.c', 'contracts/isa_stubs.c'], 'h_' + fn, enforce=fn, unwind=5, timeout=600, checks=[],
                            cbmc_flags=['--no-standard-checks'], defines=['ISA_FORM_AVX=1'], object_bits=10,
                            contract_text='%s: appends exactly one record with opcode_index == %s, prefix == %s and the operand fields (size, imm, offset, src, dest) it was given; earlier records keep their opcode index and prefix' % (fn, idx, pfx)))
    return us


# ---- native replay: compile the opcode with the real library under the offending flags and classify the listing ----
import glob, shutil, tempfile, threading
_native_lock = threading.Lock()
_native = {}

FLAGVAL = {'ORC_TARGET_MMX_MMX': 1, 'ORC_TARGET_MMX_MMXEXT': 2, 'ORC_TARGET_MMX_3DNOW': 4, 'ORC_TARGET_MMX_3DNOWEXT': 8,
           'ORC_TARGET_MMX_SSSE3': 16, 'ORC_TARGET_MMX_SSE4_1': 32, 'ORC_TARGET_MMX_SSE4_2': 64, 'ORC_TARGET_MMX_64BIT': 512,
           'ORC_TARGET_SSE_SSE2': 1, 'ORC_TARGET_SSE_SSE3': 2, 'ORC_TARGET_SSE_SSSE3': 4, 'ORC_TARGET_SSE_SSE4_1': 8,
           'ORC_TARGET_SSE_SSE4_2': 16, 'ORC_TARGET_SSE_64BIT': 512, 'ORC_TARGET_AVX_AVX': 1024, 'ORC_TARGET_AVX_AVX2': 2048}


def flag_value(expr):
    v = 0
    for tok in re.split(r'[|\s()]+', expr):
        if tok:
            v |= FLAGVAL[tok]
    return v


def native_demo():
    with _native_lock:
        if 'exe' in _native:
            return _native['exe']
        wd = tempfile.mkdtemp(prefix='orcverif.c11native.', dir=core.SCRATCH_ROOT)
        flags = ['-O0', '-w', '-I' + core.REPO, '-I' + core.config_include_dir(), '-DHAVE_CONFIG_H', '-DORC_ENABLE_UNSTABLE_API',
                 '-D_GNU_SOURCE', '-DBUILDING_ORC']
        srcs = sorted(glob.glob(os.path.join(core.REPO, 'orc', '*.c')))
        r = subprocess.run(['gcc'] + flags + srcs + [os.path.join(core.VERIF, 'tools', 'isa_demo.c'), '-lm', '-lpthread', '-o',
                                                     os.path.join(wd, 'isa_demo')], capture_output=True, text=True)
        if r.returncode != 0:
            shutil.rmtree(wd, ignore_errors=True)
            raise core.ToolError('native build failed: ' + r.stderr[-800:])
        _native['exe'] = os.path.join(wd, 'isa_demo')
        _native['wd'] = wd
        return _native['exe']


def native_cleanup():
    if 'wd' in _native:
        shutil.rmtree(_native['wd'], ignore_errors=True)
        _native.clear()


def mnemonic_needs():
    """mnemonic -> {form: set(needs)} from the SPEC table (enumerator names minus encoding suffixes)."""
    from spec import x86isa
    out = {}
    for n, (xmm, mm, v128, v256) in x86isa.T.items():
        m = re.sub(r'_(imm|load|store|reg|avx|sse|mmx|sse_load|sse_store|mmx_load|mmx_store)$', '', n)
        m = re.sub(r'_(imm|sse|mmx)$', '', m)
        d = out.setdefault(m, {'xmm': set(), 'mm': set(), 'v128': set(), 'v256': set()})
        d['xmm'].add(xmm); d['mm'].add(mm); d['v128'].add(v128); d['v256'].add(v256)
    return out


def have_set(tname, fv):
    h = {'GP'}
    if tname == 'mmx':
        if fv & 1: h.add('MMX')
        if fv & 2: h.add('MMXEXT')
        if fv & 16: h |= {'SSSE3', 'SSE2'}
        if fv & 32: h |= {'SSE41', 'SSE2'}
        if fv & 64: h |= {'SSE42', 'SSE2'}
    else:
        if fv & 1: h |= {'SSE2', 'SSE', 'MMX'}
        if fv & 2: h.add('SSE3')
        if fv & 4: h.add('SSSE3')
        if fv & 8: h.add('SSE41')
        if fv & 16: h.add('SSE42')
        if fv & 1024: h |= {'AVX', 'SSE', 'MMX'}
        if fv & 2048: h.add('AVX2')
    return h


def replay_unit(r, fos):
    """Native replay: with the real library built from the current tree, compile the opcodes the failing emitter serves
    (all opcodes for a backend helper) under EVERY subset of the target's feature bits, with array and with constant
    operands, and report listing lines whose instruction needs an extension the flags do not grant."""
    m = re.match(r'(sse|avx|mmx):(\w+)$', r.unit.name)
    if not m:
        return {'reproduced': False, 'note': 'no native replay for this unit kind'}
    tname, fn = m.group(1), m.group(2)
    regs, base = registrations(tname)
    ops = sorted(set(x[2] for x in regs.get(fn, [])))
    exe = native_demo()
    mn = mnemonic_needs()
    hits = []
    seen = set()
    n_prog = 0
    for kval in ('01010101', '1', '80', 'ffffffff', '12345678'):
        out = subprocess.run([exe, 'scan', tname, kval] + ops, capture_output=True, text=True, timeout=600).stdout
        fv = 0
        hdr = ''
        for line in out.split('\n'):
            if line.startswith('# target='):
                mh = re.match(r'# target=\w+ flags=0x([0-9a-f]+) opcode=(\w+) const=(\S+) result=0x([0-9a-f]+)', line)
                fv = int(mh.group(1), 16)
                hdr = '%s const=%s' % (mh.group(2), mh.group(3))
                have = have_set(tname, fv)
                n_prog += 1
                continue
            mm_ = re.match(r'\s+(\w+)\s*(.*)$', line)
            if not mm_ or line.lstrip().startswith(('#', '.')):
                continue
            mnem, opnds = mm_.group(1), mm_.group(2)
            isv = mnem.startswith('v') and mnem[1:] in mn
            key = mnem[1:] if isv else mnem
            if key not in mn:
                continue
            if '%ymm' in opnds:
                form = 'v256'
            elif isv:
                form = 'v128'
            elif '%xmm' in opnds:
                form = 'xmm'
            elif '%mm' in opnds:
                form = 'mm'
            else:
                continue
            needs = mn[key][form]
            if not any(n in have for n in needs):
                k = (hdr.split()[0], fv, mnem)
                if k not in seen:
                    seen.add(k)
                    hits.append({'program': hdr, 'flags': '0x%x' % fv, 'line': line.strip(), 'needs': sorted(needs)})
    return {'reproduced': bool(hits), 'programs_compiled': n_prog, 'offending_listing_lines': hits[:25],
            'n_offending': len(hits),
            'how': 'tools/isa_demo.c scan mode linked with the current tree: orc_program_compile_full(target, flags) for every flag subset + orc_program_get_asm_code, classified with spec/x86isa.py'}


def units(tier, seed, only=None):
    us = []
    for tname in ('sse', 'avx', 'mmx'):
        t = TARGETS[tname]
        path, regs, base = gen_rules_tu(tname)
        for fn in sorted(regs):
            name = '%s:%s' % (tname, fn)
            if only and not re.search(only, name):
                continue
            ops = sorted(set(r[2] for r in regs[fn]))
            u = core.Unit(name, [path] + t['extra'] + ['contracts/isa_emit_model.c', 'contracts/isa_stubs.c'], 'h_' + fn, enforce=fn, unwind=40, timeout=300,
                          checks=[], cbmc_flags=['--no-standard-checks'], defines=['ISA_STUB_LOAD_CONSTANT=' + t['loadc'], 'ISA_FORM_%s=1' % t['form'], 'ISA_BASE_FLAG=(%s)' % base],
                          object_bits=10, backends=('minisat', 'kissat'),
                          contract_text='%s (rule for %s; registered under %s): every appended instruction record is within the ISA granted by the target flags' % (
                              fn, ','.join(ops), ' / '.join(sorted(set(r[0] for r in regs[fn])))))
            us.append(u)
    us += helper_units(only)
    us += emit_units(only)
    return us


def run(tier, seed, only=None):
    static = []
    try:
        if tier == 'thorough' and not only:
            # supporting native fact (sampling, not proof): every one-instruction program x every flag subset x 5 constants
            class _U:  # noqa
                pass
            for tname, fn in (('sse', 'orc_sse_load_constant'), ('avx', 'orc_avx_load_constant'), ('mmx', 'orc_mmx_load_constant')):
                r = _U(); r.unit = _U(); r.unit.name = '%s:%s' % (tname, fn)
                res = replay_unit(r, [])
                static.append({'name': 'native listing scan %s (%d programs)' % (tname, res['programs_compiled']), 'ok': not res['reproduced'],
                               'detail': json.dumps(res['offending_listing_lines'][:5]), 'violation_text': 'native listing scan: instruction outside the granted ISA',
                               'replay': res, 'reproduced': True})
        return runner.run_property(PROP, units(tier, seed, only), tier, seed, replay_fn=replay_unit, assumptions=ASSUME, static_results=static)
    finally:
        native_cleanup()


def replay(path):
    print('see replay file', path)
    return 0
