# C17: compilation is deterministic and independent of history -- the mechanisms reachable by per-function contracts
import os, re
from .. import core, runner, extract

PROP = 'C17'
GEN = os.path.join(core.VERIF, 'out', 'gen', 'orccompiler_nv.c')
ASSUME = [
    'decided here: rule selection (orc_target_get_rule) writes nothing and its result equals a spec function of the registries, the target, the opcode and the flags -- no hidden state that earlier compiles, runs or frees could leave behind (bounded registries as in C20); thorough tier additionally attempts: register allocation equals a spec function of the register tables and rand() is reachable only under ORC_CODE=randomize',
    'NOT decided: byte-equality of two whole compilations (a 2-safety property over all back ends), independence from where position-independent code is placed, independence from the debug level beyond "logging is an empty stub in all verified code"',
    'orc_compiler_error calls are made non-variadic by a mechanical must-fire extraction of orc/orccompiler.c (arguments still evaluated); formatting of the message is not modelled',
]


def gen_source():
    src = open(os.path.join(core.REPO, 'orc/orccompiler.c')).read()
    out, n = extract.rewrite_calls(src, 'orc_compiler_error', 'orc_compiler_error_nv', keep=2, min_calls=3)
    # forward declaration so that the rewritten calls compile (must come after the includes: insert before first function)
    marker = 'static void orc_compiler_assign_rules (OrcCompiler *compiler);'
    if marker not in out:
        raise core.ToolError('extraction: anchor for the forward declaration not found')
    out = out.replace(marker, 'static void orc_compiler_error_nv (OrcCompiler *compiler, const char *fmt); ' + marker, 1)
    os.makedirs(os.path.dirname(GEN), exist_ok=True)
    with open(GEN, 'w') as f:
        f.write(out)
    return n


def units(tier, seed, only=None):
    gen_source()
    # (the register-allocator unit -- result equals a spec function of the register tables, rand() unreachable without the
    # randomize flag -- is written (contracts/regalloc.c: h_allocate_register) but undecided within 15 min; thorough tier only)
    us = []
    if tier == 'thorough':
        us.append(core.Unit('orc_compiler_allocate_register:plain', ['contracts/regalloc.c'], 'hp_allocate_register', enforce='orc_compiler_allocate_register',
                        no_dfcc=True, defines=['REGALLOC_SRC="%s"' % GEN], unwind=130, timeout=600, object_bits=10,
                        contract_text='result == spec_alloc(register tables) (first valid, free, caller-saved register of the window, else first valid free one); the allocated register is marked used and counted once, all others untouched; rand() unreachable without ORC_CODE=randomize; assume/assert form, no frame condition beyond the ghost register'))
    if tier == 'thorough':
        us.append(core.Unit('orc_compiler_allocate_register', ['contracts/regalloc.c'], 'h_allocate_register', enforce='orc_compiler_allocate_register',
                            defines=['REGALLOC_SRC="%s"' % GEN], unwind=130, timeout=3000, object_bits=10, cbmc_flags=['--no-array-field-sensitivity']))
    if tier == 'thorough':
      us.append(core.Unit('orc_compiler_get_constant_reg', ['contracts/regalloc.c'], 'hp_get_constant_reg', enforce='orc_compiler_get_constant_reg',
                        no_dfcc=True, nondet_static=True, defines=['REGALLOC_SRC="%s"' % GEN], unwind=130, timeout=900, object_bits=10,
                        checks=[], cbmc_flags=['--no-standard-checks'],
                        contract_text='result == spec_const_reg(compiler state) with every static variable nondeterministic (arbitrary history): first valid register at or above the temporaries that no live variable and no pooled constant occupies; assume/assert form'))
    for u in us:
        u.optional = True            # the register-allocation units: attempts (DESIGN.md 7.5)
        u.timeout = 900
        u.backends = ['minisat']
    # rule lookup is a pure function of (registries, target, opcode, flags): no hidden state that earlier compiles could leave
    from . import c20
    for u in c20.units(tier, seed):
        if u.name == 'orc_target_get_rule':
            us.append(u)
    if only:
        us = [u for u in us if re.search(only, u.name)]
    return us


COMPILE_PATH = ['orccompiler', 'orcprogram-x86', 'orcrules-sse', 'orcrules-avx', 'orcrules-mmx', 'orcx86', 'orcx86insn', 'orcsse', 'orcavx', 'orcmmx',
                'orcprogram-sse', 'orcprogram-avx', 'orcprogram-mmx', 'orctarget', 'orcrule', 'orcprogram', 'orccode', 'orccodemem']
# mutable objects with static storage duration that exist in the compile path, each with the reason why it cannot carry
# history from one compile into the next one's output
STATIC_ALLOW = [
    (r'::x86_regs$', 'table of register-name string literals, never written'),
    (r'_get_flag_name::1::flags$', 'table of flag-name string literals, never written'),
    (r'^orc_(sse|avx|mmx)_init::1::(t|target)$', 'target descriptors, filled once at registration'),
    (r'^_orc_compiler_flag_(backup|emulate|debug|randomize|list)$', 'set once by _orc_compiler_init from ORC_CODE'),
    (r'^_orc_codemem_alignment$', 'set once by _orc_compiler_init'),
    (r'^orc_code_(regions|n_regions)$', 'code memory regions: placement only (C09)'),
    (r'^(default_target|n_targets|targets)$', 'target registry (C19/C20)'),
]


def static_state_fact():
    """Supporting static fact for the frame of C17: the only mutable static-storage objects in the files of the compile path
    are the allow-listed ones.  An unknown one makes the check UNDECIDED (exit 2), never a violation: a new static may be
    harmless, but the claim 'no state survives a compile' is then no longer backed."""
    import json, os, subprocess, tempfile, shutil
    wd = tempfile.mkdtemp(prefix='orcverif.c17static.', dir=core.SCRATCH_ROOT)
    unknown = []
    n = 0
    try:
        for f in COMPILE_PATH:
            gb = os.path.join(wd, f + '.gb')
            r = subprocess.run(['goto-cc'] + core.cc_flags() + ['-c', os.path.join(core.REPO, 'orc', f + '.c'), '-o', gb], capture_output=True, text=True)
            if r.returncode != 0:
                return [{'name': 'static: mutable static storage in the compile path', 'ok': None, 'detail': 'goto-cc failed for %s: %s' % (f, r.stderr[-300:])}]
            out = subprocess.run(['goto-instrument', '--show-symbol-table', '--json-ui', gb], capture_output=True, text=True).stdout
            tab = None
            for x in json.loads(out):
                if isinstance(x, dict) and 'symbolTable' in x:
                    tab = x['symbolTable']
            if tab is None:
                return [{'name': 'static: mutable static storage in the compile path', 'ok': None, 'detail': 'no symbol table for ' + f}]
            for name, sym in tab.items():
                if not sym.get('isStaticLifetime') or sym.get('isExtern') or sym.get('isType'):
                    continue
                loc = sym.get('location', {})
                if '/repo/orc' not in loc.get('file', '') or sym.get('type', {}).get('id') == 'code':
                    continue
                pt = sym.get('prettyType', '')
                if pt.startswith('const ') and '*' not in pt.split('[')[0]:
                    continue
                n += 1
                if not any(re.search(pat, name) for pat, why in STATIC_ALLOW):
                    unknown.append('%s (%s, %s:%s)' % (name, pt[:30], os.path.basename(loc.get('file', '')), loc.get('line')))
    finally:
        shutil.rmtree(wd, ignore_errors=True)
    return [{'name': 'static: mutable static storage in the compile path', 'ok': True if not unknown else None,
             'detail': ('%d mutable static objects, all allow-listed with a reason' % n) if not unknown else
                       'mutable static storage that is not on the allow list (the frame of C17 is not backed any more; review and add a contract or a reason): ' + '; '.join(unknown)}]


def run(tier, seed, only=None):
    try:
        us = units(tier, seed, only)
    except core.ToolError as e:
        print('C17: tool error: %s' % e)
        return 2
    return runner.run_property(PROP, us, tier, seed, static_results=(static_state_fact() if not only else []), assumptions=ASSUME)


def replay(path):
    print('see replay file', path)
    return 0
