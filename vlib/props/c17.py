# C17: compilation is deterministic and independent of history -- the mechanisms reachable by per-function contracts
import os, re
from .. import core, runner, extract

PROP = 'C17'
GEN = os.path.join(core.VERIF, 'out', 'gen', 'orccompiler_nv.c')
ASSUME = [
    'decided here: rule selection (orc_target_get_rule) writes nothing and its result equals a spec function of the registries, the target, the opcode and the flags -- no hidden state that earlier compiles, runs or frees could leave behind (bounded registries as in C20); thorough tier additionally attempts: register allocation equals a spec function of the register tables and rand() is reachable only under ORC_CODE=randomize',
    'NOT decided: byte-equality of two whole compilations (a 2-safety property over all back ends), independence from where position-independent code is placed, independence from the debug level beyond "logging is an empty stub in all verified code"',
    'orc_compiler_error calls are made non-variadic by a mechanical must-fire extraction of orc/orccompiler.c (arguments still evaluated); formatting of the message is not modelled',
]


def gen_source():
    src = open(os.path.join(core.REPO, 'orc/orccompiler.c')).read()
    out, n = extract.rewrite_calls(src, 'orc_compiler_error', 'orc_compiler_error_nv', keep=2, min_calls=3)
    # forward declaration so that the rewritten calls compile (must come after the includes: insert before first function)
    marker = 'static void orc_compiler_assign_rules (OrcCompiler *compiler);'
    if marker not in out:
        raise core.ToolError('extraction: anchor for the forward declaration not found')
    out = out.replace(marker, 'static void orc_compiler_error_nv (OrcCompiler *compiler, const char *fmt); ' + marker, 1)
    os.makedirs(os.path.dirname(GEN), exist_ok=True)
    with open(GEN, 'w') as f:
        f.write(out)
    return n


def units(tier, seed, only=None):
    gen_source()
    # (the register-allocator unit -- result equals a spec function of the register tables, rand() unreachable without the
    # randomize flag -- is written (contracts/regalloc.c: h_allocate_register) but undecided within 15 min; thorough tier only)
    us = []
    if tier == 'thorough':
        us.append(core.Unit('orc_compiler_allocate_register:plain', ['contracts/regalloc.c'], 'hp_allocate_register', enforce='orc_compiler_allocate_register',
                        no_dfcc=True, defines=['REGALLOC_SRC="%s"' % GEN], unwind=130, timeout=600, object_bits=10,
                        contract_text='result == spec_alloc(register tables) (first valid, free, caller-saved register of the window, else first valid free one); the allocated register is marked used and counted once, all others untouched; rand() unreachable without ORC_CODE=randomize; assume/assert form, no frame condition beyond the ghost register'))
    if tier == 'thorough':
        us.append(core.Unit('orc_compiler_allocate_register', ['contracts/regalloc.c'], 'h_allocate_register', enforce='orc_compiler_allocate_register',
                            defines=['REGALLOC_SRC="%s"' % GEN], unwind=130, timeout=3000, object_bits=10, cbmc_flags=['--no-array-field-sensitivity']))
    if tier == 'thorough':
      us.append(core.Unit('orc_compiler_get_constant_reg', ['contracts/regalloc.c'], 'hp_get_constant_reg', enforce='orc_compiler_get_constant_reg',
                        no_dfcc=True, nondet_static=True, defines=['REGALLOC_SRC="%s"' % GEN], unwind=130, timeout=900, object_bits=10,
                        checks=[], cbmc_flags=['--no-standard-checks'],
                        contract_text='result == spec_const_reg(compiler state) with every static variable nondeterministic (arbitrary history): first valid register at or above the temporaries that no live variable and no pooled constant occupies; assume/assert form'))
    # rule lookup is a pure function of (registries, target, opcode, flags): no hidden state that earlier compiles could leave
    from . import c20
    for u in c20.units(tier, seed):
        if u.name == 'orc_target_get_rule':
            us.append(u)
    if only:
        us = [u for u in us if re.search(only, u.name)]
    return us


def run(tier, seed, only=None):
    try:
        us = units(tier, seed, only)
    except core.ToolError as e:
        print('C17: tool error: %s' % e)
        return 2
    return runner.run_property(PROP, us, tier, seed, assumptions=ASSUME)


def replay(path):
    print('see replay file', path)
    return 0
