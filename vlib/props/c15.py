# C15: a program written as .orc text is the program built through the API -- the pieces within reach
import re
from .. import core, runner
from . import c14

PROP = 'C15'
ASSUME = [
    'decided here: (1) operand-slot arithmetic of the parser (opcode_n_args, opcode_arg_size: the constant created for an inline numeric literal gets the size of the operand slot it stands in, for every opcode shape incl. two destinations); (2) _strtoll against a digit-string spec (decimal / 0x hex / leading-0 octal / sign, *endptr at the first unconsumed character) for strings of at most 6 characters -- bounded; (3) formatting independence of the tokenizer and line splitter is the C14 tokenizer/line-layer contracts (not repeated here)',
    'NOT decided: that each directive handler calls the construction API with exactly the values its tokens denote (the .source/.dest/.n/opcode handlers are not within reach of CBMC, see C14), float literals (strtod is libc), equality of behaviour after compilation',
    'isspace is modelled for the C locale',
]


def units(tier, seed, only=None):
    c14.gen_parse_source()
    S = ['contracts/parse15.c']
    sm = 6 if tier == 'quick' else 8
    us = [
        core.Unit('opcode_n_args', S, 'h_n_args', enforce='opcode_n_args', unwind=8, timeout=300),
        core.Unit('opcode_arg_size', S, 'h_arg_size', enforce='opcode_arg_size', unwind=8, timeout=300),
        core.Unit('_strtoll', S, 'h_strtoll', enforce='_strtoll', unwind=sm + 3, timeout=900, defines=['STRMAX=%d' % sm],
                  bounded='strings of at most %d characters, base 0; loops unwound' % sm),
        core.Unit('_strtoll:hex16', ['contracts/strtoll_hex.c'], 'hp_strtoll_hex16', enforce='_strtoll', no_dfcc=True, unwind=20, timeout=300,
                  checks=[], cbmc_flags=['--no-standard-checks'], object_bits=10,
                  contract_text='_strtoll("0x" + 16 hex digits, base 0) == that 64-bit value (bit 63 included) and *endptr at the end of the literal; assume/assert form'),
    ]
    if only:
        us = [u for u in us if re.search(only, u.name)]
    return us


def run(tier, seed, only=None):
    try:
        us = units(tier, seed, only)
    except core.ToolError as e:
        print('C15: tool error: %s' % e)
        return 2
    return runner.run_property(PROP, us, tier, seed, assumptions=ASSUME)


def replay(path):
    print('see replay file', path)
    return 0
