# C20: application-registered opcodes and rules behave like built-in ones (registries)
import re
from .. import core, runner

PROP = 'C20'
SRC = ['contracts/registry.c']
ASSUME = [
    "opcode names are strings of at most 16 bytes (= the width of OrcStaticOpcode.name), compared with CBMC's own strcmp model",
    'lookup contracts are checked on bounded registries: at most 3 opcode sets of at most 4 opcodes each (quick tier), all loops fully unwound with unwinding assertions -- labelled bounded',
    'orc_realloc is an assumed contract (fresh block, old contents preserved, stated at a ghost set index)',
    'behaviour of application-supplied emulation/rule functions themselves is not covered',
]


def units(tier, seed, only=None):
    ns, no = (3, 3) if tier == 'quick' else (3, 5)
    D = ['NSETS=%d' % ns, 'NOPS=%d' % no]
    B = 'at most %d opcode sets x %d opcodes, names <= 16 bytes; loops fully unwound' % (ns, no)
    us = [
        core.Unit('orc_opcode_set_find_by_name', SRC, 'h_set_find_by_name', enforce='orc_opcode_set_find_by_name', defines=D,
                  unwind=18, bounded=B, timeout=600, object_bits=10),
        core.Unit('orc_opcode_find_by_name', SRC, 'h_find_by_name', enforce='orc_opcode_find_by_name', defines=D,
                  unwind=18, bounded=B, timeout=400, replace=['orc_opcode_set_find_by_name'], object_bits=10),
        # pointer subtraction between unrelated arrays (how the code recognises "not in this table") is flagged by
        # CBMC's signed-overflow check on pointer differences; C20 does not speak about that, so the check is off here
        core.Unit('orc_opcode_set_find_by_opcode', SRC, 'h_set_find_by_opcode', enforce='orc_opcode_set_find_by_opcode', defines=D,
                  unwind=18, bounded=B, timeout=300, object_bits=10,
                  ignore=[r'arithmetic overflow on signed - in opcode - '],
                  assumed=['orc_opcode_set_find_by_opcode: the pointer difference between the argument and an unrelated table (undefined in ISO C, how the code detects "not in this table") is not judged: C20 does not speak about it']),
        core.Unit('orc_opcode_register_static', SRC, 'h_register_static', enforce='orc_opcode_register_static', defines=D,
                  replace=['orc_realloc'], unwind=18, timeout=300,
                  loops=[{'function': 'orc_opcode_register_static', 'file': 'orc/orcopcode.c', 'anchor': 'while (sopcode[n].name[0]) {',
                          'invariants': '0 <= n && n <= g_tablen', 'assigns': 'n', 'decreases': 'g_tablen - n'}]),
        core.Unit('orc_rule_set_new', SRC, 'h_rule_set_new', enforce='orc_rule_set_new', defines=D, unwind=18, timeout=300),
        core.Unit('orc_target_get_rule', SRC, 'h_target_get_rule', enforce='orc_target_get_rule', defines=D, unwind=18, timeout=600, object_bits=10,
                  replace=['orc_opcode_set_find_by_opcode', 'orc_opcode_set_find_by_name'], bounded=B + '; at most 3 rule sets per target'),
    ]
    if only:
        us = [u for u in us if re.search(only, u.name)]
    return us


def run(tier, seed, only=None):
    return runner.run_property(PROP, units(tier, seed, only), tier, seed, assumptions=ASSUME)


def replay(path):
    print('see replay file', path)
    return 0
