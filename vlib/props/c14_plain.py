# C14: handlers decided in assume/assert form (contracts/parse_plain.c) because the dfcc form ran out of memory
from .. import core

SRC = ['contracts/parse_plain.c']
HANDLERS = [('orc_parse_handle_source', 'hp_handle_source'), ('orc_parse_handle_dest', 'hp_handle_dest'), ('orc_parse_handle_dotn', 'hp_handle_dotn'),
            ('orc_parse_handle_opcode', 'hp_handle_opcode')]


def units(tier, seed):
    us = []
    for fn, h in HANDLERS:
        us.append(core.Unit(fn + ':plain', SRC, h, enforce=fn, no_dfcc=True, unwind=20, timeout=400, object_bits=10,
                            checks=['--bounds-check', '--pointer-check'],
                            contract_text=fn + ': for every line of 0..16 tokens as the token layer leaves it (strings, NULL beyond n_tokens) and every live program: '
                                          'answers 0 or 1, every API / string call gets valid arguments, no access outside the token array; assume/assert form'))
    return us
