# Property-level runner: runs the units of one property in parallel, applies vacuity guards,
# matches failures against known_findings.json, writes evidence and replay files, sets exit code.
import json, os, re, sys, time, concurrent.futures as cf
from . import core

VERIF = core.VERIF
OUT = os.path.join(VERIF, 'out')

TRUSTED_BASE = [
    'cbmc/goto-cc/goto-instrument 6.11.0 (symbolic execution, dfcc contract instrumentation)',
    'SAT back ends: MiniSat 2.2.1 (built in), CaDiCaL (built in), kissat (external)',
    "CBMC's C library models (malloc/free/memcpy/memset/strlen/strcmp/strdup/...)",
    'stubs in /verif/stubs (logging no-op, OS and libc functions without a CBMC model), listed per unit in assumptions',
    'gcc/clang and the hardware for native replay',
]


def load_known():
    p = os.path.join(VERIF, 'known_findings.json')
    if not os.path.exists(p):
        return []
    with open(p) as f:
        return json.load(f).get('findings', [])


def match_known(prop, unit, ob, known):
    for k in known:
        if k.get('property') != prop or k.get('status', 'open') != 'open':
            continue
        if k.get('unit') and not re.fullmatch(k['unit'], unit.name):
            continue
        if k.get('function') and k['function'] != ob['function']:
            continue
        if k.get('cls') and k['cls'] != ob['cls']:
            continue
        if k.get('description_contains') and k['description_contains'] not in ob['description']:
            continue
        return k
    return None


def run_property(prop, units, tier, seed, level='proof', jobs=None, replay_fn=None, extra_cov=None,
                 assumptions=(), static_results=(), note=''):
    """static_results: list of dicts(name, ok(bool|None), detail, violation_text) for supporting native/static facts."""
    t0 = time.time()
    jobs = jobs or int(os.environ.get('VERIF_JOBS', '16'))
    os.makedirs(os.path.join(OUT, 'replay'), exist_ok=True)
    keep = os.path.join(OUT, 'logs', prop)
    known = load_known()
    results = []
    with cf.ThreadPoolExecutor(max_workers=jobs) as ex:
        futs = {ex.submit(core.run_unit, u, tier, keep): u for u in units}
        for f in cf.as_completed(futs):
            u = futs[f]
            try:
                r = f.result()
            except Exception as e:  # noqa
                r = core.UnitResult(u)
                r.status = 'error'
                r.detail = 'exception: %r' % (e,)
            results.append(r)
            if os.environ.get('VERIF_VERBOSE'):
                print('  [%s] %s %s %.1fs %s' % (prop, u.name, r.status, r.wall_s, r.detail[:200]), file=sys.stderr)
    results.sort(key=lambda r: r.unit.name)

    violations = []
    known_hits = []
    undecided = []
    total = 0
    discharged = 0
    rows = []
    bounded_rows = []
    samples = []
    fn_under_contract = set()
    attempted = []
    assumed = set(assumptions)
    for r in results:
        u = r.unit
        obs = [o for o in r.obligations if o['description'] != 'REACH']
        n_ok = sum(1 for o in obs if o['status'] == 'SUCCESS')
        row = {'unit': u.name, 'functions': u.functions, 'status': r.status, 'obligations': len(obs),
               'discharged': n_ok, 'backend': r.backend, 'solver_s': round(r.solver_s, 2),
               'wall_s': round(r.wall_s, 2), 'loop_contracts': r.n_loop_contracts,
               'replaced_by_contract': u.replace}
        if u.contract_text:
            row['contract'] = u.contract_text
        if u.bounded:
            row['bounded'] = u.bounded
            bounded_rows.append({'unit': u.name, 'bound': u.bounded})
        if r.detail:
            row['detail'] = r.detail[:600]
        rows.append(row)
        for a in u.assumed:
            assumed.add(a)
        if r.status in ('ok', 'fail'):
            total += len(obs)
            discharged += n_ok
            for f_ in u.functions:
                fn_under_contract.add(f_)
            if len(samples) < 6 and obs:
                pick = [o for o in obs if o['cls'] in ('postcondition', 'loop_invariant_step', 'assigns')] or obs
                o = pick[0]
                samples.append({'unit': u.name, 'obligation': o['property'], 'text': o['description'][:200],
                                'status': o['status']})
        if getattr(u, 'optional', False) and (r.status == 'undecided' or (r.status == 'error' and re.search(r'timeout|no result|out of memory', r.detail or '', re.I))):
            # an attempt at a unit that is known to be out of reach of the quick budget: reported, never counted
            attempted.append({'unit': u.name, 'status': r.status, 'detail': r.detail[:600]})
        elif r.status in ('error', 'vacuous', 'undecided'):
            undecided.append({'unit': u.name, 'status': r.status, 'detail': r.detail[:1500]})
        if r.status == 'fail':
            for fo in r.failing:
                k = match_known(prop, u, fo, known)
                if k:
                    known_hits.append((k, u, fo))
                    continue
                violations.append((r, fo))

    for s in static_results:
        rows.append({'unit': s['name'], 'status': 'ok' if s['ok'] else ('fail' if s['ok'] is False else 'error'),
                     'kind': 'supporting static/native fact', 'detail': s.get('detail', '')[:600]})
        if s['ok'] is None:
            undecided.append({'unit': s['name'], 'status': 'error', 'detail': s.get('detail', '')})

    # ---- report ----
    seen_known = set()
    for k, u, fo in known_hits:
        key = k.get('id') or k.get('what')
        if key in seen_known:
            continue
        seen_known.add(key)
        print('KNOWN-FINDING: property=%s %s [%s in %s]' % (prop, k.get('what', ''), fo['property'], u.name))
    vio_lines = []
    by_unit = {}
    for r, fo in violations:
        by_unit.setdefault(r.unit.name, (r, []))[1].append(fo)
    for uname, (r, fos) in by_unit.items():
        rp = os.path.join(OUT, 'replay', '%s_%s.json' % (prop, re.sub(r'[^A-Za-z0-9_.-]', '_', uname)))
        rep = {'property': prop, 'unit': uname, 'functions_under_contract': r.unit.functions,
               'failed_obligations': fos, 'backend': r.backend, 'commands': r.cmds,
               'verifier_trace': r.trace, 'native_replay': None}
        reproduced = False
        if replay_fn:
            try:
                nr = replay_fn(r, fos)
                rep['native_replay'] = nr
                reproduced = bool(nr and nr.get('reproduced'))
            except Exception as e:  # noqa
                rep['native_replay'] = {'reproduced': False, 'error': repr(e)}
        with open(rp, 'w') as f:
            json.dump(rep, f, indent=1)
        ob_txt = '; '.join('%s (%s)' % (fo['property'], fo['description'][:100]) for fo in fos[:3])
        line = 'VIOLATION property=%s replay=%s obligation=%s' % (prop, rp, ob_txt.replace('\n', ' '))
        if not reproduced:
            line += ' no-failing-input-found'
        vio_lines.append(line)
    for s in static_results:
        if s['ok'] is False:
            rp = os.path.join(OUT, 'replay', '%s_%s.json' % (prop, re.sub(r'[^A-Za-z0-9_.-]', '_', s['name'])))
            with open(rp, 'w') as f:
                json.dump({'property': prop, 'unit': s['name'], 'detail': s.get('detail', ''),
                           'native_replay': s.get('replay')}, f, indent=1)
            line = 'VIOLATION property=%s replay=%s obligation=%s' % (prop, rp, s.get('violation_text', s['name']))
            if not s.get('reproduced', True):
                line += ' no-failing-input-found'
            vio_lines.append(line)
    for l in vio_lines:
        print(l)

    n_viol = len(vio_lines)
    cov = {
        'obligations': total,
        'discharged': discharged,
        'checker_cmd': 'goto-cc <wrapper TU including the real /repo file> && goto-instrument --dfcc <harness> '
                       '--enforce-contract <f> [--replace-call-with-contract g..] [--loop-contracts-file .. --apply-loop-contracts] '
                       '&& cbmc --bounds-check --pointer-check --pointer-overflow-check --signed-overflow-check '
                       '--undefined-shift-check --div-by-zero-check [back end]',
        'trusted_base': TRUSTED_BASE,
        'functions_under_contract': sorted(fn_under_contract),
        'n_functions_under_contract': len(fn_under_contract),
        'units': rows,
        'units_total': len(results),
        'units_ok': sum(1 for r in results if r.status == 'ok'),
        'bounded': bounded_rows,
        'undecided': undecided,
        'attempted_not_decided': attempted,
        'known_findings_hit': [{'what': k.get('what'), 'obligation': fo['property'], 'unit': u.name}
                               for k, u, fo in known_hits],
        'samples': samples or [{'note': 'no unit completed'}],
        'solver_seconds_total': round(sum(r.solver_s for r in results), 1),
        'backends_used': sorted(set(r.backend for r in results if r.backend)),
    }
    if note:
        cov['note'] = note
    if extra_cov:
        cov.update(extra_cov)
    ev = {'property_id': prop, 'tier': tier, 'seed': int(seed), 'level': level, 'coverage': cov,
          'assumptions': sorted(assumed), 'wall_s': round(time.time() - t0, 1), 'violations': n_viol}
    os.makedirs(os.path.join(VERIF, 'evidence'), exist_ok=True)
    with open(os.path.join(VERIF, 'evidence', prop + '.json'), 'w') as f:
        json.dump(ev, f, indent=1)
    print('%s: %d units, %d ok, %d obligations, %d discharged, %d violation(s), %d known finding hit(s), %d undecided, %.0fs' % (
        prop, len(results), cov['units_ok'], total, discharged, n_viol, len(seen_known), len(undecided),
        time.time() - t0))
    if n_viol:
        return 1
    if undecided:
        for u in undecided[:10]:
            print('UNDECIDED %s: %s %s' % (u['unit'], u['status'], u['detail'][:300].replace('\n', ' ')))
        return 2
    if total == 0 and not static_results:
        print('no obligations generated')
        return 2
    return 0
