# C04: contracts for the C code that the real orcc emits for one-opcode programs.
# The verified text is GENERATOR OUTPUT: orcc and liborc are built natively from /repo's current tree in a scratch
# directory on every run, orcc is run on a generated .orc file with one function per opcode, and its output (ops.c) is
# compiled by goto-cc unchanged.  Two forms per opcode: the DISABLE_ORC implementation (bare prototype) and the
# executor-based _backup_ function.
import os, re, shutil, subprocess, tempfile, glob
from . import core, emu
from .emu import OPS, UT, NMAX, post_for

GEN = os.path.join(core.VERIF, 'out', 'gen', 'c04')
OPS_C = os.path.join(GEN, 'ops.c')
ORC_VAR_D1, ORC_VAR_S1, ORC_VAR_A1, ORC_VAR_P1, ORC_N_PARAMS = 0, 4, 12, 24, 8


def native_build():
    """Build orcc + generate-emulation from the current tree (scratch dir outside /repo and /verif, removed afterwards).
    Returns dict with results of the regeneration identity check and the path of ops.c."""
    os.makedirs(GEN, exist_ok=True)
    wd = tempfile.mkdtemp(prefix='orcverif.native.', dir=core.SCRATCH_ROOT)
    info = {}
    try:
        srcs = sorted(glob.glob(os.path.join(core.REPO, 'orc', '*.c')))
        flags = ['-O0', '-w', '-I' + core.REPO, '-I' + core.config_include_dir(), '-DHAVE_CONFIG_H', '-DORC_ENABLE_UNSTABLE_API',
                 '-D_GNU_SOURCE', '-DBUILDING_ORC']
        # compile objects in parallel via make-like xargs
        objs = []
        procs = []
        for s in srcs:
            o = os.path.join(wd, os.path.basename(s)[:-2] + '.o')
            objs.append(o)
            procs.append(subprocess.Popen(['gcc'] + flags + ['-c', s, '-o', o], stderr=subprocess.PIPE))
            if len(procs) >= 16:
                for p in procs:
                    if p.wait() != 0:
                        raise core.ToolError('native build of liborc failed: ' + p.stderr.read().decode()[-800:])
                procs = []
        for p in procs:
            if p.wait() != 0:
                raise core.ToolError('native build of liborc failed: ' + p.stderr.read().decode()[-800:])
        for tool in ('orcc', 'generate-emulation'):
            r = subprocess.run(['gcc'] + flags + [os.path.join(core.REPO, 'tools', tool + '.c')] + objs + ['-lm', '-lpthread', '-o', os.path.join(wd, tool)],
                               capture_output=True, text=True)
            if r.returncode != 0:
                raise core.ToolError('native build of %s failed: %s' % (tool, r.stderr[-800:]))
        # (a) regeneration identity
        regen = os.path.join(wd, 'regen.c')
        r = subprocess.run([os.path.join(wd, 'generate-emulation'), '-o', regen], capture_output=True, text=True)
        if r.returncode != 0:
            raise core.ToolError('generate-emulation failed: ' + (r.stdout + r.stderr)[-500:])
        d = subprocess.run(['diff', regen, os.path.join(core.REPO, 'orc', 'orcemulateopcodes.c')], capture_output=True, text=True)
        info['regen_identical'] = (d.returncode == 0)
        info['regen_diff'] = d.stdout[:4000]
        # (b) orcc output for one-opcode programs
        orc_txt = gen_orc()
        with open(os.path.join(GEN, 'ops.orc'), 'w') as f:
            f.write(orc_txt)
        r = subprocess.run([os.path.join(wd, 'orcc'), '--implementation', '-o', OPS_C, os.path.join(GEN, 'ops.orc')], capture_output=True, text=True)
        if r.returncode != 0 or not os.path.exists(OPS_C):
            raise core.ToolError('orcc failed on generated ops.orc: ' + (r.stdout + r.stderr)[-1500:])
        info['orcc_log'] = (r.stdout + r.stderr)[-500:]
        return info
    finally:
        shutil.rmtree(wd, ignore_errors=True)


def op_decl(op):
    """(.orc text, mapping) for a one-opcode function."""
    lines = ['.function f_%s' % op.name]
    args = []
    nsrc = nparam = 0
    binding = {'dest': [], 'src': {}, 'param': {}}
    for j, dz in enumerate(op.dsz):
        if op.kind == 'acc':
            lines.append('.accumulator %d a1' % dz)
            args.append('a1')
            binding['dest'].append(('a', 0))
        else:
            lines.append('.dest %d d%d' % (dz, j + 1))
            args.append('d%d' % (j + 1))
            binding['dest'].append(('d', j))
    for j, sz in enumerate(op.ssz):
        if j in op.scalar:
            nparam += 1
            if sz == 8:
                lines.append('.longparam 8 p%d' % nparam)
            else:
                lines.append('.param %d p%d' % (sz, nparam))
            args.append('p%d' % nparam)
            binding['param'][j] = (nparam - 1, sz)
        else:
            nsrc += 1
            lines.append('.source %d s%d' % (sz, nsrc))
            args.append('s%d' % nsrc)
            binding['src'][j] = nsrc - 1
    lines.append('%s %s' % (op.name, ', '.join(args)))
    return '\n'.join(lines) + '\n\n', binding


SKIP = {'convwf'}   # unspecified


def gen_orc():
    out = ''
    for name, op in OPS.items():
        if name in SKIP:
            continue
        t, _ = op_decl(op)
        out += t
    # a 2-byte accumulator declared with a wider C type (as testsuite/test.orc does): the stored value must still be the
    # 16-bit sum, zero-extended
    out += '.function f_accw_int\n.accumulator 2 a1 int\n.source 2 s1\naccw a1, s1\n\n'
    return out


def gen_unit_accw_int(tier='quick'):
    """Variant of the bare accw unit for '.accumulator 2 a1 int': derived textually from the regular unit."""
    u = gen_unit('accw', 'bare', tier)
    src = open(u.sources[0]).read()
    rules = [('f_accw ', 'f_accw_int '), ('orc_uint16 * ORC_RESTRICT a1', 'int * ORC_RESTRICT a1'), ('__CPROVER_is_fresh(a1, 2)', '__CPROVER_is_fresh(a1, 4)'),
             ('__CPROVER_object_upto(a1, 2)', '__CPROVER_object_upto(a1, 4)'), ('(*(unsigned short *)a1)', '((unsigned int)*(int *)a1)'), ('f_accw(', 'f_accw_int(')]
    for a, b in rules:
        if a not in src:
            raise core.ToolError('accw_int derivation: pattern %r not found' % a)
        src = src.replace(a, b)
    path = os.path.join(GEN, 'bare_accw_int.c')
    with open(path, 'w') as f:
        f.write(src)
    loops = [dict(l, function='f_accw_int') for l in u.loops]
    v = core.Unit(name='bare:f_accw_int', sources=[path], entry='harness', enforce='f_accw_int', loops=loops, unwind=u.unwind,
                  defines=['DISABLE_ORC'], timeout=240, functions=['f_accw_int'],
                  contract_text='2-byte accumulator declared as int: *a1 == (sum of the source elements) & 0xffff, zero-extended')
    v.op = 'accw'
    return v


def gen_unit(opname, variant, tier='quick', bounded_n=None):
    """variant: 'bare' (DISABLE_ORC implementation, C prototype) or 'exec' (_backup_ function on an OrcExecutor)."""
    op = OPS[opname]
    _, b = op_decl(op)
    k = op.kind
    fn = ('f_' if variant == 'bare' else '_backup_f_') + opname
    nd, ns = len(op.dsz), len(op.ssz)
    N = 'n' if variant == 'bare' else 'ex->n'

    def dptr(j):
        kind, idx = b['dest'][j]
        if variant == 'bare':
            return 'a1' if kind == 'a' else 'd%d' % (idx + 1)
        return '((void *)&ex->accumulators[0])' if kind == 'a' else 'ex->arrays[%d]' % (ORC_VAR_D1 + idx)

    def sptr(j):
        idx = b['src'][j]
        return ('s%d' % (idx + 1)) if variant == 'bare' else 'ex->arrays[%d]' % (ORC_VAR_S1 + idx)

    def scal(j):
        idx, sz = b['param'][j]
        if variant == 'bare':
            return '((long)p%d)' % (idx + 1)
        if sz == 8:
            return ('((long)((unsigned long)(unsigned int)ex->params[%d] | ((unsigned long)(unsigned int)ex->params[%d] << 32)))'
                    % (ORC_VAR_P1 + idx, ORC_VAR_P1 + idx + ORC_N_PARAMS))
        return '((long)ex->params[%d])' % (ORC_VAR_P1 + idx)

    def arr(ptr, sz, idx):
        return '((%s *)%s)[%s]' % (UT[sz], ptr, idx)

    UL = lambda e: '((unsigned long)(%s))' % e
    req = ['0 <= %s && %s <= %d' % (N, N, NMAX)]
    if variant == 'exec':
        req.insert(0, '__CPROVER_is_fresh(ex, sizeof(*ex))')
    assigns = []
    extra_pre = []
    ghost_decl = ''
    src_count = {j: N for j in range(ns) if j not in op.scalar}
    sidx = {j: '__gk' for j in range(ns)}
    srcs_override = None
    if k == 'loadoff':
        p = scal(1)
        extra_pre.append('%s >= 0 && %s <= %d' % (p, p, NMAX))
        src_count[0] = '(%s + %s)' % (p, N)
        sidx[0] = '(%s + (long)__gk)' % p
    elif k == 'loadupd':
        src_count[0] = '(%s > 0 ? ((%s - 1) >> 1) + 1 : 0)' % (N, N)
        sidx[0] = '(((long)__gk) >> 1)'
    elif k == 'loadupi':
        src_count[0] = '(%s > 0 ? ((%s) >> 1) + 1 : 0)' % (N, N)
        srcs_override = [arr(sptr(0), 1, '(((long)__gk) >> 1)'), arr(sptr(0), 1, '(((long)__gk + 1) >> 1)')]
    elif k in ('ldresnear', 'ldreslin'):
        bb, cc = scal(1), scal(2)
        if bounded_n is None:
            bounded_n = 4
        ghost_decl = 'long g_L;'
        extra_pre.append('g_L >= 0 && g_L <= 1048576')
        need = 1 if k == 'ldresnear' else 2
        for kk in range(bounded_n):
            t = '(%s + (long)(%d) * %s)' % (bb, kk, cc)
            extra_pre.append('(%d < %s ==> (%s >= 0 && %s < 2147483648L && (%s >> 16) + %d <= g_L))' % (kk, N, t, t, t, need))
        src_count[0] = 'g_L'
        tmp = '(%s + (long)((long)__gk) * %s)' % (bb, cc)
        if k == 'ldresnear':
            srcs_override = [arr(sptr(0), op.ssz[0], '(%s >> 16)' % tmp)]
        else:
            srcs_override = [arr(sptr(0), op.ssz[0], '(%s >> 16)' % tmp), arr(sptr(0), op.ssz[0], '((%s >> 16) + 1)' % tmp), '((%s >> 8) & 255)' % tmp]
    # array requirements
    if k == 'acc':
        if variant == 'bare':
            req.append('__CPROVER_is_fresh(a1, %d)' % op.dsz[0])
            assigns.append('__CPROVER_object_upto(a1, %d)' % op.dsz[0])
        else:
            assigns.append('ex->accumulators[0]')
    else:
        for j in range(nd):
            req.append('__CPROVER_is_fresh(%s, %s * %d)' % (dptr(j), UL(N), op.dsz[j]))
            assigns.append('__CPROVER_object_upto(%s, %s * %d)' % (dptr(j), UL(N), op.dsz[j]))
    req += extra_pre
    for j in range(ns):
        if j not in op.scalar:
            req.append('__CPROVER_is_fresh(%s, %s * %d)' % (sptr(j), UL(src_count[j]), op.ssz[j]))
    scal_exprs = {j: scal(j) for j in op.scalar}
    if op.pre:
        req.append(op.pre(scal_exprs))
    if srcs_override is not None:
        srcs = srcs_override
    else:
        srcs = []
        for j in range(ns):
            if j in op.scalar:
                if k == 'loadoff' and j == 1:
                    continue
                srcs.append(scal(j))
            else:
                srcs.append(arr(sptr(j), op.ssz[j], sidx[j]))
    dests = [arr(dptr(j), op.dsz[j], '__gk') for j in range(nd)] if k != 'acc' else []
    ens = inv = acc_inv = None
    unwind = None
    bounded = None
    if k == 'acc':
        nb = 64
        req[1 if variant == 'exec' else 0] = '0 <= %s && %s <= %d' % (N, N, nb)
        term = op.spec(*[arr(sptr(j), op.ssz[j], '__k') for j in range(ns)])
        ghost_decl += 'unsigned int g_ps[%d];' % (nb + 1)
        req.append('g_ps[0] == 0u')
        req.append('__CPROVER_forall { int __k; (0 <= __k && __k < %d) ==> (__k < %s ==> g_ps[__k + 1] == g_ps[__k] + %s) }' % (nb, N, term))
        if variant == 'bare':
            cell = '(*(%s *)a1)' % UT[op.dsz[0]]
        else:
            cell = '((unsigned int)ex->accumulators[0])'
        mask = '0xffffu' if op.dsz[0] == 2 else '0xffffffffu'
        # the C functions start from zero: result = sum mod 2^16 / 2^32
        ens = '%s == (g_ps[%s] & %s)' % (cell, N, mask)
        if op.dsz[0] == 2:
            acc_inv = '(unsigned short)var12.i == (unsigned short)g_ps[i]'
        elif opname == 'accsadubl':
            acc_inv = '(unsigned int)var12.i == g_ps[i] && 0 <= var12.i && var12.i <= 255 * i'
        else:
            acc_inv = '(unsigned int)var12.i == g_ps[i]'
    else:
        p = post_for(op, dests, srcs)
        if p is not None and bounded_n is not None:
            req[1 if variant == 'exec' else 0] = '0 <= %s && %s <= %d' % (N, N, bounded_n)
            ens = ' && '.join('(%d < %s ==> (%s))' % (kk, N, p.replace('__gk', str(kk))) for kk in range(bounded_n))
            unwind = bounded_n + 1
            bounded = 'n <= %d per call, loop fully unwound' % bounded_n
        elif p is not None:
            ens = '(__gk < (unsigned long)%s ==> (%s))' % (N, p)
            inv = '(__gk < (unsigned long)i ==> (%s))' % p
    # prototype
    if variant == 'bare':
        params = []
        for j in range(nd):
            params.append('%s * ORC_RESTRICT %s' % ('orc_uint%d' % (8 * op.dsz[j]), 'a1' if k == 'acc' else 'd%d' % (j + 1)))
        si = pi = 0
        for j in range(ns):
            if j in op.scalar:
                pi += 1
                params.append(('orc_int64 p%d' if op.ssz[j] == 8 else 'int p%d') % pi)
            else:
                si += 1
                params.append('const orc_uint%d * ORC_RESTRICT s%d' % (8 * op.ssz[j], si))
        params.append('int n')
        proto = 'void %s (%s)' % (fn, ', '.join(params))
        hargs = []
        for j in range(nd):
            hargs.append('nondet_ptr()')
        for j in range(ns):
            hargs.append('nondet_long()' if j in op.scalar else 'nondet_ptr()')
        hargs.append('nondet_int()')
        call = '%s(%s);' % (fn, ', '.join(hargs))
    else:
        proto = 'static void %s (OrcExecutor * ORC_RESTRICT ex)' % fn
        call = '%s(nondet_ptr());' % fn
    lines = ['#include "stubs/prelude.h"', '#include "%s"' % OPS_C, ghost_decl, 'unsigned long __gk;', proto]
    for r in req:
        lines.append('__CPROVER_requires(%s)' % r)
    lines.append('__CPROVER_assigns(%s)' % ', '.join(assigns))
    if ens:
        lines.append('__CPROVER_ensures(%s)' % ens)
    lines.append(';')
    lines += ['void harness(void) {', '  __gk = nondet_ulong();', '  ' + call, '  __CPROVER_assert(0, "REACH");', '}']
    path = os.path.join(GEN, '%s_%s.c' % (variant, opname))
    with open(path, 'w') as f:
        f.write('\n'.join(lines) + '\n')
    loops = []
    if unwind is None:
        nvar = 'n'
        base_inv = '0 <= i && i <= n' + (' && n == ex->n' if variant == 'exec' else '')
        loops = [{'function': fn, 'file': OPS_C, 'anchor': 'for (i = 0; i < n; i++) {',
                  'invariants': base_inv + (' && ' + inv if inv else '') + (' && ' + acc_inv if acc_inv else ''),
                  'assigns': 'AUTO_LOCALS' + ('' if k == 'acc' else ', ' + ', '.join(assigns)), 'decreases': 'n - i'}]
    u = core.Unit(name='%s:%s' % (variant, fn), sources=[path], entry='harness', enforce=fn, loops=loops, unwind=unwind,
                  defines=(['DISABLE_ORC'] if variant == 'bare' else []), timeout=240, bounded=bounded, functions=[fn],
                  contract_text=('ensures ' + (ens or 'true (frame and memory safety only)'))[:400])
    u.op = opname
    return u
