# Generator: per-opcode contract + loop invariant + harness for the real emulate_<op> functions
# (orc/orcemulateopcodes.c) from the SPEC table in spec/opcodes.py.
import os, sys
from . import core
sys.path.insert(0, core.VERIF)
from spec.opcodes import OPS, UT, ST, FP, FL32, FL64, NAN32, NAN64, F32, F64, B32, B64  # noqa

EMU_FILE = 'orc/orcemulateopcodes.c'
NMAX = 1000000
GEN = os.path.join(core.VERIF, 'out', 'gen')


def arr(kind, j, sz, idx):
    return '((%s *)ex->%s_ptrs[%d])[%s]' % (UT[sz], kind, j, idx)


def scal(j):
    return '(*(long *)ex->src_ptrs[%d])' % j


def post_for(op, dests, srcs):
    """C predicate text: relation between destination element values (list of C exprs, unsigned of dest width)
    and operands."""
    F = None
    k = op.kind
    if k in ('arith', 'load', 'loadoff', 'loadp', 'store', 'loadupd', 'loadupi', 'ldresnear', 'ldreslin') or \
            (op.isfloat and op.spec and k == 'arith'):
        sp = op.spec(*srcs)
        if isinstance(sp, str):
            sp = [sp]
        return ' && '.join('%s == (%s)(%s)' % (d, UT[dz], s) for d, dz, s in zip(dests, op.dsz, sp))
    if k == 'farith':
        sz = op.ssz[0]
        Fx, Bx, FLx, NANx = FP[sz]
        r = op.spec(*srcs)
        d = dests[0]
        return '((%s || %s) ? %s : (%s ? %s : %s == (%s)))' % (NANx(srcs[0]), NANx(srcs[1]), NANx(d), NANx(r), NANx(d), d, r)
    if k == 'fminmax':
        sz = op.ssz[0]
        Fx, Bx, FLx, NANx = FP[sz]
        a, b = FLx(srcs[0]), FLx(srcs[1])
        d = dests[0]
        lt = '<' if op.name.startswith('min') else '>'
        return ('((%s || %s) ? %s : ((%s %s %s) ? %s == %s : ((%s %s %s) ? %s == %s : (%s == %s || %s == %s))))' %
                (NANx(a), NANx(b), NANx(d), Fx(a), lt, Fx(b), d, a, Fx(b), lt, Fx(a), d, b, d, a, d, b))
    if k == 'fconv_fl':
        a = srcs[0]
        f = F32(a)
        # truncation toward zero inside the int32 range; |x| >= 2^31, infinities and NaN saturate by sign
        return ('(((unsigned int)(%s) & 0x7fffffffu) >= 0x4f000000u ? %s == (((unsigned int)(%s) & 0x80000000u) ? 0x80000000u : 0x7fffffffu) : %s == (unsigned int)(int)%s)'
                % (a, dests[0], a, dests[0], f))
    if k == 'fconv_dl':
        a = srcs[0]
        f = F64(a)
        return ('(((unsigned long)(%s) & 0x7fffffffffffffffUL) >= 0x41e0000000000000UL ? %s == (((unsigned long)(%s) & 0x8000000000000000UL) ? 0x80000000u : 0x7fffffffu) : %s == (unsigned int)(int)%s)'
                % (a, dests[0], a, dests[0], f))
    if k == 'fconv_fd':
        a = FL32(srcs[0])
        return '(%s ? %s : %s == %s)' % (NAN32(a), NAN64(dests[0]), dests[0], B64('((double)%s)' % F32(a)))
    if k == 'fconv_df':
        a = FL64(srcs[0])
        r = FL32(B32('((float)%s)' % F64(a)))
        return '(%s ? %s : %s == %s)' % (NAN64(a), NAN32(dests[0]), dests[0], r)
    if k == 'fsqrt':
        return None
    if k == 'unspecified':
        return None
    raise KeyError(k)


def gen_unit(opname, mode='spec', tier='quick', bounded_n=None):
    """mode 'spec': full functional contract; mode 'frame': requires + assigns only (property C03)."""
    op = OPS[opname]
    fn = 'emulate_' + opname
    k = op.kind
    req = ['0 <= n && n <= %d && 0 <= offset && offset <= %d' % (NMAX, NMAX),
           '__CPROVER_is_fresh(ex, sizeof(*ex))']
    assigns = []
    bounded = None
    loops = []
    unwind = None
    nd, ns = len(op.dsz), len(op.ssz)
    didx = '__gk'
    sidx = ['__gk'] * ns
    dst_count = 'n'
    src_count = ['n'] * ns
    extra_pre = []
    inv_extra = ''
    srcs_override = None
    UL = lambda e: '((unsigned long)(%s))' % e
    if k == 'load':
        src_count[0] = '(offset + n)'
        sidx[0] = '(offset + __gk)'
    elif k == 'store':
        dst_count = '(offset + n)'
        didx = '(offset + __gk)'
    elif k == 'loadoff':
        p = scal(1)
        extra_pre.append('%s >= -%d && %s <= %d && offset + %s >= 0' % (p, NMAX, p, NMAX, p))
        src_count[0] = '(offset + %s + n)' % p
        sidx[0] = '(offset + %s + (long)__gk)' % p
    elif k == 'loadupd':
        src_count[0] = '(n > 0 ? ((offset + n - 1) >> 1) + 1 : 0)'
        sidx[0] = '((offset + (long)__gk) >> 1)'
    elif k == 'loadupi':
        src_count[0] = '(n > 0 ? ((offset + n) >> 1) + 1 : 0)'
        srcs_override = [arr('src', 0, 1, '((offset + (long)__gk) >> 1)'),
                         arr('src', 0, 1, '((offset + (long)__gk + 1) >> 1)')]
    elif k in ('ldresnear', 'ldreslin'):
        b, c = scal(1), scal(2)
        # 16.16 fixed point.  The source array has g_L elements and holds every element the formula refers to for
        # k < n: stated per element (explicit conjunction), which needs a bound on n -- always a bounded stand-in.
        if bounded_n is None:
            bounded_n = 4
        ghost_pre = 'long g_L;'
        extra_pre.append('g_L >= 0 && g_L <= 1048576')
        extra_pre.append('%s >= -2147483648L && %s <= 2147483647L && %s >= -2147483648L && %s <= 2147483647L' % (b, b, c, c))
        need = 1 if k == 'ldresnear' else 2
        for kk in range(bounded_n):
            t = '(%s + (long)(offset + %d) * %s)' % (b, kk, c)
            extra_pre.append('(%d < n ==> (%s >= 0 && %s < 2147483648L && (%s >> 16) + %d <= g_L))' % (kk, t, t, t, need))
        src_count[0] = 'g_L'
        tmp = '(%s + (long)(offset + (long)__gk) * %s)' % (b, c)
        if k == 'ldresnear':
            srcs_override = [arr('src', 0, op.ssz[0], '(%s >> 16)' % tmp)]
        else:
            srcs_override = [arr('src', 0, op.ssz[0], '(%s >> 16)' % tmp),
                             arr('src', 0, op.ssz[0], '((%s >> 16) + 1)' % tmp),
                             '((%s >> 8) & 255)' % tmp]
    # requires for arrays
    if k == 'acc':
        req.append('__CPROVER_is_fresh(ex->dest_ptrs[0], 4)')
        assigns.append('__CPROVER_object_upto(ex->dest_ptrs[0], 4)')
    else:
        for j in range(nd):
            req.append('__CPROVER_is_fresh(ex->dest_ptrs[%d], %s * %d)' % (j, UL(dst_count), op.dsz[j]))
            if k == 'store':
                assigns.append('__CPROVER_object_upto((char *)ex->dest_ptrs[%d] + %s * %d, %s * %d)' % (
                    j, UL('offset'), op.dsz[j], UL('n'), op.dsz[j]))
            else:
                assigns.append('__CPROVER_object_upto(ex->dest_ptrs[%d], %s * %d)' % (j, UL('n'), op.dsz[j]))
    for j in range(ns):
        if j in op.scalar:
            req.insert(2, '__CPROVER_is_fresh(ex->src_ptrs[%d], 8)' % j)
    if extra_pre:
        req[2 + len(op.scalar):2 + len(op.scalar)] = extra_pre
        extra_pre = []
    for j in range(ns):
        if j in op.scalar:
            pass
        else:
            req.append('__CPROVER_is_fresh(ex->src_ptrs[%d], %s * %d)' % (j, UL(src_count[j]), op.ssz[j]))
    req += extra_pre
    scal_exprs = {j: scal(j) for j in op.scalar}
    if op.pre:
        req.append(op.pre(scal_exprs))
    # operands
    if srcs_override is not None:
        srcs = srcs_override
    else:
        srcs = []
        for j in range(ns):
            if j in op.scalar:
                if k == 'loadoff' and j == 1:
                    continue
                srcs.append(scal(j))
            else:
                srcs.append(arr('src', j, op.ssz[j], sidx[j]))
    dests = [arr('dest', j, op.dsz[j], didx) for j in range(nd)]
    ens = None
    inv = None
    P = None
    if mode == 'spec':
        if k == 'acc':
            pass
        else:
            p = post_for(op, dests, srcs)
            P = p
            if p is not None and bounded_n is not None:
                # bounded stand-in: explicit constant-index conjunction (lets CBMC share the multiplier of code and spec)
                ens = ' && '.join('(%d < n ==> (%s))' % (kk, p.replace('__gk', str(kk))) for kk in range(bounded_n))
            elif p is not None:
                ens = '(__gk < (unsigned long)n ==> (%s))' % p
                inv = '(__gk < (unsigned long)i ==> (%s))' % p
    ghost_decl = locals().get('ghost_pre', '')
    acc_inv = None
    if k == 'acc':
        # n <= 64 = the largest chunk the driver passes.  The sum is specified through a ghost prefix-sum array
        # that satisfies the defining recurrence (unique solution, so the assumption is not vacuous).
        nb = 64
        req[0] = '0 <= n && n <= %d && 0 <= offset && offset <= %d' % (nb, NMAX)
        cell = '(*(unsigned int *)ex->dest_ptrs[0])'
        term = op.spec(*[arr('src', j, op.ssz[j], '__k') for j in range(ns)])
        ghost_decl += 'unsigned int g_ps[%d];' % (nb + 1)
        req.append('g_ps[0] == 0u')
        req.append('__CPROVER_forall { int __k; (0 <= __k && __k < %d) ==> (__k < n ==> g_ps[__k + 1] == g_ps[__k] + %s) }' % (nb, term))
        if op.dsz[0] == 2:
            req.append('%s <= 0xffffu' % cell)
        if mode == 'spec':
            if op.dsz[0] == 2:
                ens = '%s == ((__CPROVER_old(%s) + g_ps[n]) & 0xffffu)' % (cell, cell)
            else:
                ens = '%s == (unsigned int)(__CPROVER_old(%s) + g_ps[n])' % (cell, cell)
        if op.dsz[0] == 2:
            acc_inv = '(unsigned short)var12.i == (unsigned short)g_ps[i]'
        elif opname == 'accsadubl':
            acc_inv = '(unsigned int)var12.i == g_ps[i] && 0 <= var12.i && var12.i <= 255 * i'
        else:
            acc_inv = '(unsigned int)var12.i == g_ps[i]'
    if bounded_n is not None and k != 'acc':
        req[0] = '0 <= n && n <= %d && 0 <= offset && offset <= %d' % (bounded_n, NMAX)
    lines = ['#include "%s/%s"' % (core.REPO, EMU_FILE), ghost_decl,
             'unsigned long __gk;', 'unsigned long nondet_ulong(void);',
             'void %s(OrcOpcodeExecutor *ex, int offset, int n)' % fn]
    for r in req:
        lines.append('__CPROVER_requires(%s)' % r)
    lines.append('__CPROVER_assigns(%s)' % ', '.join(assigns))
    if ens:
        lines.append('__CPROVER_ensures(%s)' % ens)
    lines.append(';')
    lines += ['void harness(void) {', '  OrcOpcodeExecutor *ex; int offset, n;', '  __gk = nondet_ulong();',
              '  %s(ex, offset, n);' % fn, '  __CPROVER_assert(0, "REACH");', '}']
    os.makedirs(GEN, exist_ok=True)
    path = os.path.join(GEN, '%s_%s.c' % (mode, fn))
    with open(path, 'w') as f:
        f.write('\n'.join(lines) + '\n')
    if bounded_n is not None and k != 'acc':
        unwind = bounded_n + 1
        bounded = 'n <= %d per call, loop fully unwound (the unbounded loop-contract query is undecided on every back end)' % bounded_n
    if unwind is None:
        base_inv = '0 <= i && i <= n'
        loops = [{'function': fn, 'file': EMU_FILE, 'anchor': 'for (i = 0; i < n; i++)',
                  'invariants': base_inv + (' && ' + inv if inv else '') + (' && ' + acc_inv if acc_inv else ''),
                  'assigns': 'AUTO_LOCALS' + ('' if k == 'acc' else ', ' + ', '.join(assigns)),
                  'decreases': 'n - i'}]
    backends = ['kissat', 'minisat'] if (op.hard and mode == 'spec') else ['minisat', 'kissat']
    u = core.Unit(name='%s:%s' % (mode, fn), sources=[path], entry='harness', enforce=fn, loops=loops,
                  unwind=unwind, backends=backends, timeout=(300 if op.hard and mode == 'spec' else 90),
                  bounded=bounded, functions=[fn],
                  contract_text=('ensures ' + (ens or 'true (frame and memory safety only)'))[:400])
    u.op = opname
    u.native = {'kind': k, 'dst_count': dst_count, 'src_count': src_count, 'scalars': sorted(op.scalar),
                'pre': [r for r in req[2:] if 'is_fresh' not in r], 'P': P, 'ens': ens, 'dsz': op.dsz, 'ssz': op.ssz,
                'nmax': 64 if k == 'acc' else None, 'fn': fn}
    return u
