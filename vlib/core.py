# Core pipeline: goto-cc -> (loop-contract JSON) -> goto-instrument --dfcc -> cbmc
# One "Unit" = one harness that enforces the contract of one function of /repo
# (callees under contract replaced by their contracts).  See DESIGN.md section 2.
import json, os, re, shutil, subprocess, tempfile, time, hashlib, resource

REPO = os.environ.get('VERIF_REPO', '/repo')
VERIF = os.path.dirname(os.path.dirname(os.path.abspath(__file__)))
SCRATCH_ROOT = os.environ.get('VERIF_SCRATCH', '/var/tmp')
MEM_KB = 14 * 1024 * 1024

DEFAULT_CHECKS = ['--bounds-check', '--pointer-check', '--pointer-overflow-check',
                  '--signed-overflow-check', '--undefined-shift-check',
                  '--div-by-zero-check']

C_KEYWORDS = set('''auto break case char const continue default do double else enum extern float for goto if
inline int long register restrict return short signed sizeof static struct switch typedef union unsigned
void volatile while _Bool'''.split())


def config_include_dir():
    """Directory that holds config.h: the build tree when present, else /verif's fallback copy."""
    for d in (os.path.join(REPO, '_build'),):
        if os.path.exists(os.path.join(d, 'config.h')):
            return d
    return os.path.join(VERIF, 'stubs', 'fallback_config')


def cc_flags():
    return ['-I' + REPO, '-I' + config_include_dir(), '-I' + VERIF,
            '-DHAVE_CONFIG_H', '-DORC_ENABLE_UNSTABLE_API', '-D_GNU_SOURCE', '-DBUILDING_ORC',
            '-DORC_VERIF_CBMC']


class ToolError(Exception):
    pass


def _limits():
    resource.setrlimit(resource.RLIMIT_AS, (MEM_KB * 1024, MEM_KB * 1024))
    os.setsid()


def run(cmd, timeout, cwd=None, stdout_path=None):
    """Run cmd under timeout and address-space limit. Returns (rc, out, seconds); rc None on timeout."""
    t0 = time.time()
    out_f = open(stdout_path, 'wb') if stdout_path else subprocess.PIPE
    try:
        p = subprocess.Popen(cmd, cwd=cwd, stdout=out_f, stderr=subprocess.STDOUT if not stdout_path else subprocess.PIPE,
                             preexec_fn=_limits)
        try:
            out, err = p.communicate(timeout=timeout)
            rc = p.returncode
        except subprocess.TimeoutExpired:
            try:
                os.killpg(p.pid, 9)
            except Exception:
                p.kill()
            p.communicate()
            return None, '', time.time() - t0
    finally:
        if stdout_path:
            out_f.close()
    if stdout_path:
        txt = (err or b'').decode('utf-8', 'replace')
    else:
        txt = (out or b'').decode('utf-8', 'replace')
    return rc, txt, time.time() - t0


class Unit:
    def __init__(self, name, sources, entry, enforce=None, replace=(), loops=(), unwind=None, unwindset=(),
                 defines=(), cbmc_flags=(), backends=('minisat', 'kissat'), timeout=120,
                 bounded=None, functions=None, checks=None, object_bits=None, reach=True,
                 expect_fail=(), no_dfcc=False, contract_text='', cex=None, group=None,
                 extra_cc=(), nondet_static=False, restrict_fp=(), assumed=(), static_fns=(), ignore=()):
        self.name = name
        self.sources = list(sources)          # paths relative to /verif or absolute
        self.entry = entry
        self.enforce = enforce                # function whose contract is enforced (None: harness-level proof)
        self.replace = list(replace)          # callees replaced by contracts
        self.loops = list(loops)              # list of dict(function, anchor, invariants, assigns, decreases)
        self.unwind = unwind
        self.unwindset = list(unwindset)
        self.defines = list(defines)
        self.cbmc_flags = list(cbmc_flags)
        self.backends = list(backends)
        self.timeout = timeout
        self.bounded = bounded                # None or text: labelled bounded, not counted as proved
        self.functions = functions or ([enforce] if enforce else [])
        self.checks = DEFAULT_CHECKS if checks is None else checks
        self.object_bits = object_bits
        self.reach = reach
        self.expect_fail = list(expect_fail)
        self.no_dfcc = no_dfcc
        self.contract_text = contract_text    # human-readable contract summary for evidence
        self.cex = cex                        # optional callable(unit, failing) -> replay info
        self.group = group
        self.extra_cc = list(extra_cc)
        self.nondet_static = nondet_static
        self.restrict_fp = list(restrict_fp)
        self.assumed = list(assumed)          # assumptions specific to this unit
        self.static_fns = list(static_fns)
        self.optional = False        # thorough-tier attempt at a unit known to be hard: 'undecided' is reported as attempted, not as a failure of the check
        self.ignore = list(ignore)   # regexes on obligation descriptions that are outside the property (each listed as an assumption)


class UnitResult:
    def __init__(self, unit):
        self.unit = unit
        self.status = 'error'        # ok | fail | undecided | error | vacuous
        self.obligations = []        # list of dict(property, status, description, function, line, cls)
        self.failing = []
        self.backend = None
        self.solver_s = 0.0
        self.wall_s = 0.0
        self.detail = ''
        self.log = ''
        self.trace = None
        self.n_loop_contracts = 0
        self.cmds = []


_src_cache = {}


def read_lines(path):
    if path not in _src_cache:
        with open(path, errors='replace') as f:
            _src_cache[path] = f.read().split('\n')
    return _src_cache[path]


def function_span(path, fn):
    """(first,last) 1-based line numbers of the definition of fn in path (brace matching). None if absent."""
    lines = read_lines(path)
    pat = re.compile(r'(^|[\s\*])' + re.escape(fn) + r'\s*\(')
    for idx, l in enumerate(lines):
        if pat.search(l) and not l.rstrip().endswith(';'):
            # find opening brace within the next 12 lines and before any ';'
            depth = 0
            started = False
            j = idx
            ok = True
            while j < len(lines) and j < idx + 4000:
                s = lines[j]
                if not started and ';' in s and '{' not in s and j > idx:
                    # prototype spanning lines
                    if ')' in s:
                        ok = False
                        break
                for ch in s:
                    if ch == '{':
                        depth += 1
                        started = True
                    elif ch == '}':
                        depth -= 1
                if started and depth == 0:
                    return (idx + 1, j + 1)
                j += 1
            if not ok:
                continue
    return None


def find_anchor_line(path, fn, anchor, occurrence=0):
    span = function_span(path, fn)
    if not span:
        raise ToolError('function %s not found in %s' % (fn, path))
    lines = read_lines(path)
    hits = [ln for ln in range(span[0], span[1] + 1) if anchor in lines[ln - 1]]
    if len(hits) <= occurrence:
        raise ToolError('loop anchor %r (occurrence %d) not found in %s:%s' % (anchor, occurrence, path, fn))
    return hits[occurrence]


def show_loops(gb, cwd):
    rc, out, _ = run(['goto-instrument', '--show-loops', gb], 120, cwd)
    loops = {}   # (function, line) -> [loop ids]
    cur = None
    for l in out.split('\n'):
        m = re.match(r'Loop (\S+)\.(\d+):', l)
        if m:
            cur = (m.group(1), m.group(2))
            continue
        m = re.match(r'\s+file (\S+) line (\d+) function (\S+)', l)
        if m and cur:
            loops.setdefault((m.group(3), int(m.group(2))), []).append(cur[1])
            cur = None
    return loops


_symtab_cache = {}


def symbol_table(gb, cwd):
    rc, out, _ = run(['goto-instrument', '--show-symbol-table', '--json-ui', gb], 300, cwd)
    try:
        d = json.loads(out[out.index('['):])
    except Exception:
        raise ToolError('cannot read symbol table')
    for e in d:
        if 'symbolTable' in e:
            return e['symbolTable']
    raise ToolError('no symbol table')


def resolve_symbols(texts, fn, symtab, extra=()):
    """Build the loop-contract symbol_map for the identifiers used in texts."""
    idents = set()
    for t in texts:
        if not t:
            continue
        t2 = re.sub(r'"[^"]*"', '', t)
        # drop member names after . or ->
        t2 = re.sub(r'(\.|->)\s*[A-Za-z_]\w*', r'\1', t2)
        for m in re.finditer(r'[A-Za-z_]\w*', t2):
            idents.add(m.group(0))
    pairs = []
    for tok in sorted(idents):
        if tok in C_KEYWORDS or tok.startswith('__CPROVER'):
            continue
        if fn + '::' + tok in symtab:
            pairs.append((tok, fn + '::' + tok))
            continue
        cands = [k for k in symtab if k.startswith(fn + '::') and k.endswith('::' + tok)
                 and re.fullmatch(re.escape(fn) + r'(::\d+)+::' + re.escape(tok), k)]
        if len(cands) == 1:
            pairs.append((tok, cands[0]))
            continue
        if len(cands) > 1:
            cands.sort(key=lambda k: (k.count('::'), k))
            pairs.append((tok, cands[0]))
            continue
        if tok in symtab:
            pairs.append((tok, tok))
            continue
        # static globals / file-local: CBMC keeps plain name for file-scope statics in single TU
        # typedef names and struct tags are not symbols for the predicate parser -> must not be used
    return ';'.join('%s,%s' % p for p in pairs)


def toplevel_locals(fn, symtab, include_ptr=False):
    """Function-scope (not nested-block) non-pointer, non-const locals: the candidates for loop assigns."""
    out = []
    for k, v in symtab.items():
        m = re.fullmatch(re.escape(fn) + r'::1::([A-Za-z_]\w*)', k)
        if not m:
            continue
        pt = v.get('prettyType', '')
        if '*' in pt and not include_ptr:
            continue
        if pt.startswith('const '):
            continue
        out.append(m.group(1))
    return sorted(out)


def loop_span(path, line):
    """Source lines of the loop statement that starts at `line` (brace matched, or single statement)."""
    lines = read_lines(path)
    depth = 0
    started = False
    j = line - 1
    while j < len(lines):
        for ch in lines[j]:
            if ch == '{':
                depth += 1
                started = True
            elif ch == '}':
                depth -= 1
        if started and depth == 0:
            return (line, j + 1)
        if not started and lines[j].rstrip().endswith(';') and j > line - 1:
            return (line, j + 1)
        j += 1
    return (line, line)


def loop_assigned_locals(path, line, candidates):
    """Function-scope locals that are syntactically assigned inside the loop starting at `line`."""
    a, b = loop_span(path, line)
    text = '\n'.join(read_lines(path)[a - 1:b])
    text = re.sub(r'/\*.*?\*/', '', text, flags=re.S)
    out = []
    for c in candidates:
        pat = (r'(\+\+|--)\s*\b%s\b|\b%s\b\s*((\.\w+|\[[^\]]*\])\s*)*(\+\+|--|(?<![=!<>])=(?!=)|\+=|-=|\*=|/=|\|=|&=|\^=|<<=|>>=)'
               % (re.escape(c), re.escape(c)))
        if re.search(pat, text):
            out.append(c)
    return out


def parse_results(path):
    """Parse cbmc --json-ui output file. Returns (results list or None, status, messages)."""
    try:
        with open(path, errors='replace') as f:
            txt = f.read()
        d = json.loads(txt)
    except Exception:
        # try to salvage truncated output
        return None, None, ['unparseable cbmc output']
    res = None
    status = None
    msgs = []
    for e in d:
        if not isinstance(e, dict):
            continue
        if 'result' in e:
            res = e['result']
        if 'cProverStatus' in e:
            status = e['cProverStatus']
        if e.get('messageType') in ('ERROR', 'WARNING') or 'ignoring' in e.get('messageText', ''):
            msgs.append(e.get('messageText', ''))
    return res, status, msgs


BACKEND_FLAGS = {
    'minisat': [],
    'cadical': ['--sat-solver', 'cadical'],
    'kissat': ['--external-sat-solver', 'kissat'],
    'z3': ['--z3'],
    'cvc5': ['--cvc5'],
}


def build_unit(unit, wd, tier='quick'):
    """goto-cc + loop contracts + goto-instrument. Returns path of instrumented binary and info dict."""
    info = {'cmds': []}
    srcs = [s if os.path.isabs(s) else os.path.join(VERIF, s) for s in unit.sources]
    a = os.path.join(wd, 'a.gb')
    cmd = ['goto-cc'] + cc_flags() + ['-DVERIF_TIER_' + tier.upper()] + ['-D' + d for d in unit.defines] + unit.extra_cc + \
          ['--function', unit.entry] + srcs + ['-o', a]
    info['cmds'].append(' '.join(cmd))
    rc, out, _ = run(cmd, 600, wd)
    if rc != 0 or not os.path.exists(a):
        raise ToolError('goto-cc failed:\n' + out[-3000:])
    if 'ignoring' in out and 'contract' in out:
        raise ToolError('goto-cc ignored a contract:\n' + out[-2000:])
    cur = a
    if unit.nondet_static:
        b0 = os.path.join(wd, 'a_ns.gb')
        rc, out, _ = run(['goto-instrument', '--nondet-static', cur, b0], 300, wd)
        if rc != 0:
            raise ToolError('nondet-static failed: ' + out[-2000:])
        cur = b0
    if unit.restrict_fp:
        b1 = os.path.join(wd, 'a_fp.gb')
        cmd = ['goto-instrument']
        for r in unit.restrict_fp:
            cmd += ['--restrict-function-pointer', r]
        cmd += [cur, b1]
        info['cmds'].append(' '.join(cmd))
        rc, out, _ = run(cmd, 300, wd)
        if rc != 0:
            raise ToolError('restrict-function-pointer failed: ' + out[-2000:])
        cur = b1
    lc_file = None
    n_lc = 0
    if unit.loops:
        symtab = symbol_table(cur, wd)
        loops = show_loops(cur, wd)
        by_fn = {}
        sources = set()
        for lp in unit.loops:
            fn = lp['function']
            path = lp.get('file')
            path = path if os.path.isabs(path) else os.path.join(REPO, path)
            sources.add(path)
            if 'line' in lp:
                line = lp['line']
            else:
                line = find_anchor_line(path, fn, lp['anchor'], lp.get('occurrence', 0))
            ids = loops.get((fn, line))
            if not ids:
                # a loop header spanning lines: accept the closest loop within +-2 lines
                for dl in (1, -1, 2, -2):
                    ids = loops.get((fn, line + dl))
                    if ids:
                        break
            if not ids:
                raise ToolError('no CBMC loop at %s:%d (%s); loops known: %s' % (
                    path, line, fn, sorted(k for k in loops if k[0] == fn)))
            lid = ids[lp.get('nth_at_line', 0)] if len(ids) > lp.get('nth_at_line', 0) else ids[0]
            assigns = lp.get('assigns')
            if assigns == 'AUTO_LOCALS' or (assigns and 'AUTO_LOCALS' in assigns):
                locs = ', '.join(loop_assigned_locals(path, line, toplevel_locals(fn, symtab)))
                assigns = assigns.replace('AUTO_LOCALS', locs)
            ent = {'loop_id': str(lid), 'invariants': lp['invariants']}
            if assigns:
                ent['assigns'] = assigns
            if lp.get('decreases'):
                ent['decreases'] = lp['decreases']
            ent['symbol_map'] = resolve_symbols([lp['invariants'], assigns, lp.get('decreases')], fn, symtab)
            by_fn.setdefault(fn, []).append(ent)
            n_lc += 1
        lc = {'sources': sorted(sources), 'functions': [{fn: ents} for fn, ents in by_fn.items()]}
        lc_file = os.path.join(wd, 'loops.json')
        with open(lc_file, 'w') as f:
            json.dump(lc, f, indent=1)
    info['n_loop_contracts'] = n_lc
    b = os.path.join(wd, 'b.gb')
    if unit.no_dfcc:
        b = cur
    else:
        cmd = ['goto-instrument', '--dfcc', unit.entry]
        if unit.enforce:
            cmd += ['--enforce-contract', unit.enforce]
        for r in unit.replace:
            cmd += ['--replace-call-with-contract', r]
        if lc_file:
            cmd += ['--loop-contracts-file', lc_file, '--apply-loop-contracts']
        cmd += [cur, b]
        info['cmds'].append(' '.join(cmd))
        rc, out, _ = run(cmd, 900, wd)
        if rc != 0 or not os.path.exists(b):
            raise ToolError('goto-instrument failed:\n' + out[-3000:])
        info['instrument_log'] = out[-1500:]
    return b, info


def cbmc_cmd(unit, gb, backend, extra=()):
    cmd = ['cbmc', gb, '--json-ui'] + list(unit.checks) + list(unit.cbmc_flags) + BACKEND_FLAGS[backend]
    if unit.unwind is not None:
        cmd += ['--unwind', str(unit.unwind)]
    if unit.unwindset:
        cmd += ['--unwindset', ','.join(unit.unwindset)]
    if unit.unwind is not None or unit.unwindset:
        cmd += ['--unwinding-assertions']
    if unit.object_bits:
        cmd += ['--object-bits', str(unit.object_bits)]
    cmd += list(extra)
    return cmd


def norm_ob(ob):
    sl = ob.get('sourceLocation', {}) or {}
    prop = ob.get('property', '')
    cls = sl.get('propertyClass')
    if not cls:
        m = re.match(r'.*\.([a-zA-Z_\-]+)\.\d+$', prop)
        cls = m.group(1) if m else ''
    return {'property': prop, 'status': ob.get('status'), 'description': ob.get('description', ''),
            'function': sl.get('function', ''), 'file': sl.get('file', ''), 'line': sl.get('line', ''),
            'cls': cls}


def run_unit(unit, tier='quick', keep_dir=None):
    res = UnitResult(unit)
    t0 = time.time()
    wd = tempfile.mkdtemp(prefix='orcverif.', dir=SCRATCH_ROOT)
    try:
        try:
            gb, info = build_unit(unit, wd, tier)
        except ToolError as e:
            res.status = 'error'
            res.detail = str(e)
            return res
        res.cmds = info['cmds']
        res.n_loop_contracts = info.get('n_loop_contracts', 0)
        timeout = unit.timeout * (1 if (tier == 'quick' or getattr(unit, 'optional', False)) else 6)
        for be in unit.backends:
            outp = os.path.join(wd, 'out_%s.json' % be)
            cmd = cbmc_cmd(unit, gb, be)
            res.cmds.append(' '.join(cmd))
            rc, err, secs = run(cmd, timeout, wd, stdout_path=outp)
            if rc is None:
                res.detail += '%s: timeout after %ds; ' % (be, timeout)
                continue
            results, status, msgs = parse_results(outp)
            if results is None:
                tail = ''
                try:
                    tail = open(outp, errors='replace').read()[-1500:]
                except Exception:
                    pass
                res.detail += '%s: no result (rc=%s) %s %s; ' % (be, rc, ' | '.join(msgs)[-800:], tail[-600:] if not msgs else '')
                continue
            if any('ignoring' in m for m in msgs):
                res.status = 'error'
                res.detail += 'quantifier ignored by back end %s; ' % be
                continue
            res.backend = be
            res.solver_s = secs
            res.obligations = [norm_ob(o) for o in results]
            break
        else:
            res.status = 'undecided' if 'timeout' in res.detail else 'error'
            return res
        if unit.ignore:
            res.obligations = [o for o in res.obligations if not any(re.search(rx, o['description']) for rx in unit.ignore)]
        obs = res.obligations
        reach = [o for o in obs if o['description'] == 'REACH' and o['function'] == unit.entry]
        obs = [o for o in obs if not (o['description'] == 'REACH' and o['function'] != unit.entry)]
        res.obligations = obs
        failing = [o for o in obs if o['status'] == 'FAILURE' and o['description'] != 'REACH']
        unknown = [o for o in obs if o['status'] not in ('SUCCESS', 'FAILURE')]
        if unknown and not failing:
            res.status = 'undecided'
            res.detail += '%d obligations with status %s (solver gave no verdict); ' % (len(unknown), unknown[0]['status'])
            return res
        if unit.reach:
            if not reach:
                res.status = 'error'
                res.detail += 'reach marker missing; '
                return res
            if any(o['status'] == 'SUCCESS' for o in reach):
                res.status = 'vacuous'
                res.detail += 'end of harness unreachable (contradictory requires or pruned path); '
                return res
        if unit.loops:
            kinds = set(o['cls'] for o in obs)
            if 'loop_invariant_base' not in kinds or 'loop_invariant_step' not in kinds:
                res.status = 'error'
                res.detail += 'loop contract silently dropped (no loop_invariant obligations); '
                return res
        if unit.enforce and not unit.no_dfcc:
            if not any(o['cls'] in ('postcondition', 'assigns', 'precondition') or 'postcondition' in o['property'] for o in obs):
                res.status = 'error'
                res.detail += 'no contract obligations generated; '
                return res
        res.failing = failing
        if failing:
            res.status = 'fail'
            # fetch a trace for the first few failing obligations
            traces = []
            for fo in failing[:3]:
                outp = os.path.join(wd, 'trace.json')
                cmd = cbmc_cmd(unit, gb, res.backend if res.backend != 'kissat' else 'minisat',
                               ['--property', fo['property'], '--trace'])
                rc, err, secs = run(cmd, max(timeout, 120), wd, stdout_path=outp)
                tr = extract_trace(outp) if rc is not None else None
                traces.append({'property': fo['property'], 'trace': tr})
            res.trace = traces
        else:
            res.status = 'ok'
        return res
    finally:
        res.wall_s = time.time() - t0
        if keep_dir:
            # verifier output is kept only for units that did not pass (a full run of all checks would otherwise leave
            # 8 GB of logs behind), and only files of moderate size
            try:
                dst = os.path.join(keep_dir, re.sub(r'[^A-Za-z0-9_.-]', '_', unit.name))
                shutil.rmtree(dst, ignore_errors=True)
                if res.status != 'ok':
                    os.makedirs(dst, exist_ok=True)
                    for fn_ in os.listdir(wd):
                        if fn_.endswith('.json') and os.path.getsize(os.path.join(wd, fn_)) < 5_000_000:
                            shutil.copy(os.path.join(wd, fn_), dst)
            except Exception:
                pass
        shutil.rmtree(wd, ignore_errors=True)


def extract_trace(path):
    """Compact list of (function, line, lhs, value) assignments from a cbmc json trace."""
    try:
        d = json.load(open(path, errors='replace'))
    except Exception:
        return None
    for e in d:
        if isinstance(e, dict) and 'result' in e:
            for r in e['result']:
                if 'trace' in r:
                    steps = []
                    for s in r['trace']:
                        if s.get('stepType') == 'assignment' and not s.get('hidden'):
                            v = s.get('value', {})
                            val = v.get('data', v.get('name'))
                            if val is None and 'members' in v:
                                val = json.dumps(v)[:200]
                            sl = s.get('sourceLocation', {}) or {}
                            steps.append({'fn': sl.get('function', ''), 'line': sl.get('line', ''),
                                          'lhs': s.get('lhs', ''), 'value': val})
                        elif s.get('stepType') == 'failure':
                            sl = s.get('sourceLocation', {}) or {}
                            steps.append({'failure': s.get('reason', ''), 'fn': sl.get('function', ''),
                                          'line': sl.get('line', ''), 'property': s.get('property', '')})
                    return steps
    return None


def trace_inputs(steps, names):
    """Last assigned value for each variable name (bare lhs) found in trace steps."""
    out = {}
    if not steps:
        return out
    for s in steps:
        lhs = s.get('lhs')
        if lhs in names:
            out[lhs] = s.get('value')
    return out
