# Mechanical, must-fire source extraction used where dfcc cannot instrument variadic functions: every call of a variadic
# function f(a, fmt, extra...) becomes ((void)(extra)..., f_nv(a, fmt)); a non-variadic f_nv is appended that forwards to
# the real va_list worker.  Nothing else changes; line numbers are preserved.  Re-done on every run.
import os, re
from . import core


def split_args(txt):
    args, depth, cur, instr, i = [], 0, '', False, 0
    while i < len(txt):
        ch = txt[i]
        if instr:
            cur += ch
            if ch == '\\':
                cur += txt[i + 1]
                i += 1
            elif ch == '"':
                instr = False
        elif ch == '"':
            instr = True
            cur += ch
        elif ch in '([':
            depth += 1
            cur += ch
        elif ch in ')]':
            depth -= 1
            cur += ch
        elif ch == ',' and depth == 0:
            args.append(cur.strip())
            cur = ''
        else:
            cur += ch
        i += 1
    if cur.strip():
        args.append(cur.strip())
    return args


def rewrite_calls(src, fname, newname, keep=2, min_calls=1, skip_definition=True):
    out, pos, n = '', 0, 0
    pat = re.compile(r'\b' + re.escape(fname) + r' \(')
    while True:
        m = pat.search(src, pos)
        if not m:
            out += src[pos:]
            break
        # skip the definition / prototype (preceded by newline = start of line)
        if skip_definition and (m.start() == 0 or src[m.start() - 1] == '\n'):
            out += src[pos:m.end()]
            pos = m.end()
            continue
        i, depth, instr = m.end(), 1, False
        while depth:
            ch = src[i]
            if instr:
                if ch == '\\':
                    i += 1
                elif ch == '"':
                    instr = False
            elif ch == '"':
                instr = True
            elif ch == '(':
                depth += 1
            elif ch == ')':
                depth -= 1
            i += 1
        args = split_args(src[m.end():i - 1])
        if len(args) < keep:
            raise core.ToolError('extraction: unexpected call shape of %s' % fname)
        extra = ''.join('(void)(%s), ' % a for a in args[keep:])
        out += src[pos:m.start()] + '(%s%s (%s))' % (extra, newname, ', '.join(args[:keep]))
        pos = i
        n += 1
    if n < min_calls:
        raise core.ToolError('extraction: %s call rule fired only %d times' % (fname, n))
    return out, n
