#!/usr/bin/env python3
# Offline setup: nothing to build (the framework is Python + CBMC); verifies that the tools are present.
import shutil, subprocess, sys, os
ok = True
for t in ('cbmc', 'goto-cc', 'goto-instrument', 'kissat', 'gcc'):
    p = shutil.which(t)
    print('%-16s %s' % (t, p))
    ok = ok and bool(p)
os.makedirs('/verif/out', exist_ok=True)
os.makedirs('/verif/evidence', exist_ok=True)
sys.exit(0 if ok else 1)
